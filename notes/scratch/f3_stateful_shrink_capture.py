import os, json, numpy as np, hypothesis
from hypothesis import settings, strategies as st, seed, Phase, HealthCheck
from hypothesis.stateful import RuleBasedStateMachine, rule, invariant, run_state_machine_as_test
from tempest.state_manager import StateManager
LAST={}
class M(RuleBasedStateMachine):
    def __init__(self):
        super().__init__(); self.sm=StateManager(2); self.model={}; self.log=[]
    @rule(v=st.lists(st.floats(-1,1),min_size=1,max_size=3))
    def set_logl(self,v):
        self.log.append(("set_logl",v)); a=np.array(v); self.sm.set_current("logl",a); self.model["logl"]=a.copy(); a[:]=99
    @rule()
    def export_scribble(self):
        self.log.append(("export_scribble",)); d=self.sm.to_dict()
        if d["_current"]["logl"] is not None: d["_current"]["logl"][:]=7
    @invariant()
    def agrees(self):
        got=self.sm.get_current("logl")
        try:
            if "logl" in self.model: assert np.array_equal(got,self.model["logl"]),(got,self.model["logl"])
        except AssertionError:
            LAST["log"]=list(self.log); raise
n=[0]
try:
    run_state_machine_as_test(seed(int(os.environ.get("VERIF_SEED","1")))(M), settings=settings(max_examples=200,stateful_step_count=20,deadline=None,database=None,report_multiple_bugs=False,suppress_health_check=list(HealthCheck)))
    print("no failure")
except AssertionError as e:
    print("FAILED; minimal sequence:", json.dumps(LAST["log"]))
