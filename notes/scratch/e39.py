import numpy as np, warnings, collections, math
warnings.filterwarnings("ignore")
from fractions import Fraction
from unittest import mock
from tempest.tools import systematic_resample, SQRTEPS
rng=np.random.default_rng(7)
def sysr(n,w,u0):
    with mock.patch("numpy.random.random",return_value=u0): return systematic_resample(n,w)
c=collections.Counter()
for t in range(1500):
    n=int(rng.integers(1,60)); m=int(rng.integers(1,60))
    kind=rng.integers(0,4)
    w=rng.random(m) if kind==0 else (rng.dirichlet(np.ones(m)*rng.choice([0.05,1,20])) if kind==1 else np.exp(rng.normal(0,rng.choice([1,10,50]),m)))
    if kind==3: w=rng.random(m); w[rng.random(m)<0.5]=0
    if w.sum()==0: w[0]=1
    w=w/w.sum()
    delta=rng.choice([0,1e-16,-1e-16,rng.uniform(-1,1)*SQRTEPS*0.99])
    w=w*(1+delta)
    if abs(w.sum()-1)>SQRTEPS: c["skip"]+=1; continue
    W=[Fraction(float(x)) for x in w]; S=sum(W); cum=np.cumsum([float(x/S) for x in W])  # real-model cum
    # breakpoints u0 = c_j*n - i in [0,1)
    bps={0.0}
    cj=Fraction(0)
    for j in range(m):
        cj+=W[j]
        # code compares positions to un-normalised cumulative sums of w (float); model: c_j (exact, of given w)
        for i in range(n):
            b=cj*n-i
            if 0<=b<1: bps.add(float(b))
    bps=sorted(bps)
    pts=set()
    for b in bps:
        for v in (b,np.nextafter(b,0),np.nextafter(b,1)):
            if 0<=v<1: pts.add(float(v))
    edges=bps+[1.0]
    mids=[(edges[i]+edges[i+1])/2 for i in range(len(edges)-1)]
    pts.update(mids); pts.add(float(np.nextafter(1,0)))
    expc=np.zeros(m)
    bad=None
    nw=np.array([float(n*x) for x in W]); tau=n*abs(float(S)-1)+1e-9
    for u0 in sorted(pts):
        try: idx=sysr(n,w,u0)
        except Exception as e: bad=("EXC",type(e).__name__,u0); break
        if len(idx)!=n or idx.min()<0 or idx.max()>=m or np.any(np.diff(idx)<0): bad=("shape/range/order",u0); break
        cnt=np.bincount(idx,minlength=m)
        lo=np.floor(nw-tau); hi=np.ceil(nw+tau)
        if np.any(cnt<lo) or np.any(cnt>hi): bad=("floorceil",u0,cnt[(cnt<lo)|(cnt>hi)],nw[(cnt<lo)|(cnt>hi)]); break
    if bad is None:
        for i,mid in enumerate(mids):
            L=edges[i+1]-edges[i]
            expc+=L*np.bincount(sysr(n,w,mid),minlength=m)
        if np.abs(expc-nw).max()>tau: bad=("unbiased",np.abs(expc-nw).max())
    c[bad[0] if bad else "ok"]+=1
    if bad and c[bad[0]]<=3: print(bad, "n",n,"m",m,"delta",delta)
print(c)
