import numpy as np, warnings, sys, collections
warnings.filterwarnings("ignore")
from multiprocessing import Pool
from tempest.cluster import HierarchicalGaussianMixture, GaussianMixture
def gen(rng):
    d=int(rng.integers(1,7)); k=int(rng.integers(1,5)); n=int(rng.integers(2*d,400))
    kind=int(rng.integers(0,6))
    cents=rng.random((k,d))*rng.choice([1,1,10,1e-3]) + rng.choice([0,0,5,-100])
    sc=10**rng.uniform(-4,0,size=k)
    comp=rng.integers(0,k,size=n)
    X=cents[comp]+sc[comp,None]*rng.standard_normal((n,d))
    if kind==1: X=np.round(X,1)
    if kind==2: X[:, 0]=X[0,0]   # degenerate coordinate
    if kind==3: X=np.repeat(X[:max(2,n//10)], 10, axis=0)[:n]
    wk=int(rng.integers(0,5))
    n=len(X)
    if wk==0: w=np.ones(n)
    elif wk==1: w=rng.random(n)
    elif wk==2: w=np.exp(rng.normal(0,5,size=n))
    elif wk==3: w=np.exp(rng.normal(0,30,size=n))
    else:
        w=rng.random(n); w[rng.random(n)<0.5]=0
        if w.sum()==0: w[0]=1
    return X,w,kind,wk
def work(seed):
    rng=np.random.default_rng(seed); out=[]
    for t in range(60):
        X,w,kind,wk=gen(rng)
        n,d=X.shape
        for ct in ["full","diag"]:
            K=int(rng.integers(1,4))
            try:
                g=GaussianMixture(K,covariance_type=ct,random_state=0).fit(X,w)
                ok=[]
                if not (np.all(np.isfinite(g.weights_)) and np.all(g.weights_>=0) and abs(g.weights_.sum()-1)<1e-9): ok.append("weights")
                if not np.all(np.isfinite(g.means_)): ok.append("means-nan")
                else:
                    lo,hi=X.min(0),X.max(0); tol=1e-6*max(1,np.abs(X).max())
                    for j in range(K):
                        if g.weights_[j]>1e-3 and (np.any(g.means_[j]<lo-tol) or np.any(g.means_[j]>hi+tol)): ok.append("mean-outside")
                if ct=="full":
                    for j in range(K):
                        C=g.covariances_[j]
                        if not np.all(np.isfinite(C)): ok.append("cov-nan"); continue
                        if np.abs(C-C.T).max()>1e-9*max(1e-300,np.abs(C).max()): ok.append("cov-asym")
                        if np.linalg.eigvalsh((C+C.T)/2).min()< -1e-9*max(1e-300,np.abs(C).max()): ok.append("cov-notpsd")
                lab=g.predict(X)
                if lab.min()<0 or lab.max()>=K: ok.append("label-range")
                out.append(("GM",ct,kind,wk,tuple(sorted(set(ok)))))
            except Exception as e:
                out.append(("GM",ct,kind,wk,("EXC",type(e).__name__,str(e)[:60])))
        nmc=int(rng.choice([0,1,2,3]))
        try:
            h=HierarchicalGaussianMixture(normalize=bool(rng.integers(0,2)),max_iterations=1000 if nmc==0 else nmc-1, min_points=None if nmc==0 else 4*d, threshold_modifier=float(rng.choice([0.1,1.0,3.0])))
            h.fit(X,w); ok=[]
            K=h.n_clusters_
            if h.labels_.min()<0 or h.labels_.max()>=K: ok.append("labels")
            if nmc and K>nmc: ok.append("cap")
            mp=4*d if nmc else 2*d
            if K>1 and np.bincount(h.labels_,minlength=K).min()<mp: ok.append("minpoints")
            Q=rng.random((50,d))*rng.choice([1,100])-rng.choice([0,50])
            lab=h.predict(Q)
            if lab.min()<0 or lab.max()>=K: ok.append("predict-range")
            P=h.predict_proba(Q)
            if P.shape!=(50,K) or not np.all(np.isfinite(P)): ok.append("proba")
            out.append(("HGM",K>1,kind,wk,tuple(ok)))
        except Exception as e:
            out.append(("HGM",None,kind,wk,("EXC",type(e).__name__,str(e)[:60])))
    return out
if __name__=="__main__":
    with Pool(16) as p: res=p.map(work, range(32))
    c=collections.Counter(r for rr in res for r in rr)
    for k,v in sorted(c.items(), key=lambda kv: str(kv[0])):
        if k[-1]: print(v,k)
    print("total",sum(c.values()), "clean", sum(v for k,v in c.items() if not k[-1]))
