import numpy as np, warnings, traceback, sys, collections, time
warnings.filterwarnings("ignore")
from multiprocessing import Pool
from tempest import Sampler
def pt(u): return 20*u-10
def work(args):
    seed,d=args
    def ll(x): return -0.5*np.sum(x**2,axis=1)
    np.random.seed(seed); t=time.time()
    try:
        sm=Sampler(pt,ll,n_dim=d,vectorize=True)
        sm.run(n_total=256,progress=False); return (d,"ok")
    except Exception as e:
        tb=traceback.extract_tb(sys.exc_info()[2])
        return (d,type(e).__name__+":"+str(e)[:40]+"@"+tb[-3].name+"/"+tb[-2].name)
if __name__=="__main__":
    with Pool(16) as p: r=p.map(work,[(s,d) for s in range(60) for d in [1,2,3,5]])
    for k,v in sorted(collections.Counter(r).items()): print(v,k)
