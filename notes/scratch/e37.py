import numpy as np, warnings, sys, time
warnings.filterwarnings("ignore")
from multiprocessing import Pool
from scipy.stats import norm, truncnorm
import tempest.steps.mutate as M
from tempest import Sampler
sig=0.1
def work(args):
    seed,kern,tgt,N=args
    cross=[0,0]; Ks=[]
    orig=M.parallel_mcmc
    holder={}
    def wrap(**kw):
        out=orig(**kw)
        cl=holder["s"]._core.trainer.clusterer
        if cl is not None and cl.n_clusters_>1:
            lab=cl.predict(out[0]); cross[0]+=int(np.sum(lab!=kw["assignments"]))
        cross[1]+=len(kw["assignments"]); Ks.append(kw["mode_stats"].K)
        return out
    M.parallel_mcmc=wrap
    if tgt=="wall":
        pt=lambda u:u; ll=lambda x:-0.5*np.sum((x/sig)**2,axis=1)
        a,b=0,1/sig; tm=truncnorm.mean(a,b,scale=sig); tv=truncnorm.var(a,b,scale=sig)
    else: # exp prior transform: x=exp(6u-3), gaussian like in x around 1 width .5 -> skewed in u
        pt=lambda u:np.exp(6*u-3); ll=lambda x:-0.5*np.sum(((x-1.0)/0.5)**2,axis=1)
        g=np.linspace(0,1,200001); xx=np.exp(6*g-3); w=np.exp(-0.5*((xx-1)/0.5)**2); w/=w.sum(); tm=np.sum(w*xx); tv=np.sum(w*(xx-tm)**2)
    np.random.seed(seed)
    try:
        s=Sampler(pt,ll,n_dim=2,n_particles=N,clustering=True,vectorize=True,sample=kern); holder["s"]=s
        s.run(n_total=16*N,progress=False)
    except Exception as e:
        M.parallel_mcmc=orig; return [np.nan]*5
    M.parallel_mcmc=orig
    x,w,l=s.posterior(trim_importance_weights=False)
    m=np.sum(w*x[:,0]); v=np.sum(w*(x[:,0]-tm)**2)
    return [(m-tm)/np.sqrt(tv), v/tv-1, cross[0]/max(1,cross[1]), np.mean(Ks), max(Ks)]
if __name__=="__main__":
    R=96
    for tgt in ["wall","exp"]:
      for kern in ["tpcn","rwm"]:
        for N in [64,256]:
          with Pool(16) as p: r=np.array(p.map(work,[(13000+i,kern,tgt,N) for i in range(R)]))
          nb=int(np.isnan(r[:,0]).sum()); r=r[~np.isnan(r[:,0])]
          mean=r.mean(0); se=r.std(0,ddof=1)/np.sqrt(len(r))
          print(tgt,kern,N," ".join("%+.4f(%.1f)"%(mean[i],mean[i]/se[i]) for i in range(2)),"cross %.4f meanK %.2f maxK %d bad %d"%(mean[2],mean[3],r[:,4].max(),nb),"s",np.round(r.std(0)[:2],3))
