import numpy as np, sys, os, tempfile
from pathlib import Path
from tempest import Sampler
from scipy.stats import norm
def pt(u): return norm.ppf(u)
def ll(x): return np.sum(-0.5*np.log(2*np.pi)-0.5*x**2,axis=1)
d=tempfile.mkdtemp()
np.random.seed(0)
s=Sampler(pt,ll,n_dim=2,vectorize=True,n_particles=32,clustering=False,random_state=0,output_dir=d)
s.run(n_total=128,save_every=1,progress=False)
print(sorted(os.listdir(d)))
print("iters",s.state.get_current("iter"), "hist", s.state.get_history_length(), s.evidence())
# load
s2=Sampler(pt,ll,n_dim=2,vectorize=True,n_particles=32,clustering=False,random_state=0,output_dir=d)
s2.load_state(Path(d)/"ps_3.state")
print("after load: hist len", s2.state.get_history_length(), "iter", s2.state.get_current("iter"), "beta", s2.state.get_current("beta"))
import dill
dd=dill.load(open(Path(d)/"ps_3.state","rb"))
print(dd.keys(), dd["_current"]["iter"], len(dd["_history"]["beta"]))
s3=Sampler(pt,ll,n_dim=2,vectorize=True,n_particles=32,clustering=False,random_state=0,output_dir=d)
s3.run(n_total=128,resume_state_path=Path(d)/"ps_3.state",progress=False)
print("resumed: iter", s3.state.get_current("iter"), "hist", s3.state.get_history_length(), s3.state.get_history("iter"))
