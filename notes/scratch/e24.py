import numpy as np, warnings, traceback, sys, collections
warnings.filterwarnings("ignore")
from multiprocessing import Pool
from tempest import Sampler
m=np.array([0.4,0.55]); s=np.array([0.03,0.06])
def pt(u): return u
def ll(x): return -0.5*np.sum(((x-m)/s)**2,axis=1)
def work(seed):
    out=[]
    for kern,res in [("tpcn","mult"),("rwm","syst")]:
      for N in [16,32,64]:
        np.random.seed(seed)
        try:
            sm=Sampler(pt,ll,n_dim=2,n_particles=N,clustering=True,vectorize=True,sample=kern,resample=res)
            sm.run(n_total=8*N,progress=False); out.append((N,"ok"))
        except Exception as e:
            tb=traceback.extract_tb(sys.exc_info()[2])
            out.append((N,type(e).__name__+":"+str(e)[:30]+"@"+tb[-3].name+"/"+tb[-2].name))
    return out
if __name__=="__main__":
    with Pool(16) as p: r=p.map(work,range(2000,2200))
    print(collections.Counter(x for rr in r for x in rr))
