import numpy as np, warnings, sys, collections, io, contextlib
warnings.filterwarnings("ignore")
from multiprocessing import Pool
from tempest.student import fit_mvstud
def gen(rng):
    d=int(rng.integers(1,9)); n=int(rng.integers(4*d,600))
    kind=int(rng.integers(0,5))
    A=rng.standard_normal((d,d))*rng.random()+np.eye(d)
    if kind==0: Z=rng.standard_normal((n,d))
    elif kind==1:
        nu=rng.choice([1,2,3,5,10,30]); Z=rng.standard_normal((n,d))/np.sqrt(rng.chisquare(nu,size=(n,1))/nu)
    elif kind==2: Z=rng.exponential(size=(n,d))
    elif kind==3:
        Z=rng.standard_normal((n,d)); m=rng.random(n)<0.05; Z[m]*=50
    else: Z=rng.random((n,d))
    return Z@A.T, kind
def relerr(a,b,scale): return np.max(np.abs(a-b)/scale)
def work(seed):
    rng=np.random.default_rng(seed); out=[]
    for t in range(40):
        X,kind=gen(rng); n,d=X.shape
        try:
            with contextlib.redirect_stdout(io.StringIO()) as f:
                mu,S,nu=fit_mvstud(X)
            conv="Warning" not in f.getvalue()
        except Exception as e:
            out.append(("EXC-base",kind,type(e).__name__,str(e)[:50])); continue
        bad=[]
        if not np.all(np.isfinite(mu)) or not np.all(np.isfinite(S)): bad.append("nonfinite")
        else:
            if np.any(mu<X.min(0)-1e-9*np.abs(X).max()) or np.any(mu>X.max(0)+1e-9*np.abs(X).max()): bad.append("mu-outside")
            if np.linalg.eigvalsh((S+S.T)/2).min()<=0: bad.append("notpd")
        if not (nu>0): bad.append("nu<=0")
        sd=np.sqrt(np.diag(S)) if np.all(np.isfinite(S)) else np.ones(d)
        # scaling
        s=10**rng.uniform(-6,6,size=d); tr=rng.standard_normal(d)*sd*rng.choice([0,1,100]); perm=rng.permutation(d)
        Y=(X*s+tr*s)[:,perm]
        try:
            with contextlib.redirect_stdout(io.StringIO()):
                mu2,S2,nu2=fit_mvstud(Y)
            mu2b=np.empty(d); mu2b[perm]=mu2; S2b=np.empty((d,d)); S2b[np.ix_(perm,perm)]=S2
            e_mu=relerr(mu2b/s-tr,mu,sd); e_S=relerr(S2b/np.outer(s,s),S,np.outer(sd,sd)); e_nu=abs(1/nu2-1/nu)
            out.append(("eq",kind,conv,float(e_mu),float(e_S),float(e_nu),tuple(bad), float(nu)))
        except Exception as e:
            out.append(("EXC-tr",kind,type(e).__name__,str(e)[:50]))
    return out
if __name__=="__main__":
    with Pool(16) as p: res=p.map(work, range(32))
    flat=[r for rr in res for r in rr]
    ex=[r for r in flat if r[0]!="eq"]; print("exc",collections.Counter(ex))
    eq=[r for r in flat if r[0]=="eq"]
    print("n",len(eq),"nonconv",sum(1 for r in eq if not r[2]), "bad",collections.Counter(r[6] for r in eq))
    for name,i in [("mu",3),("S",4),("nu",5)]:
        v=np.array([r[i] for r in eq]); print(name,"max",v.max(),"99.9%",np.quantile(v,.999),"median",np.median(v))
    worst=sorted(eq,key=lambda r:-max(r[3],r[4],r[5]))[:8]
    for w in worst: print(w)
    print("nu inf count", sum(1 for r in eq if np.isinf(r[7])))
