import numpy as np
from unittest import mock
from scipy.stats import multivariate_t
from tempest.mcmc import parallel_mcmc, TPCNRunner
from tempest.modes import ModeStatistics
log=[]
gs=iter([0.7,1.3,0.4]); zs=iter([np.array([0.3]),np.array([-1.2]),np.array([2.0]),np.array([0.1]),np.array([0.5])]); 
def g(shape,scale): v=next(gs); log.append(("gamma",shape,scale,v)); return v*scale  # scripted standard-ish
def rn(d): v=next(zs); log.append(("randn",d,v)); return v
def rd(n): v=np.array([0.2,0.9,0.5])[:n]; log.append(("rand",n,v)); return v
u=np.array([[0.3],[0.6],[0.45]]); mu=np.array([[0.5]]); cov=np.array([[[0.01]]]); nu=np.array([4.0])
ms=ModeStatistics(mu,cov,nu)
ll=lambda x:(-0.5*np.sum(((x-0.5)/0.1)**2,axis=1),None)
with mock.patch.object(np.random,"gamma",g), mock.patch.object(np.random,"randn",rn), mock.patch.object(np.random,"rand",rd):
    out=parallel_mcmc(u,u.copy(),ll(u)[0],None,np.zeros(3,dtype=int),0.8,ms,ll,lambda v:v,None,n_steps=1,n_max=1,sample="tpcn",verbose=False)
print("steps",out[6],"calls",out[7]); 
for l in log: print(l)
print(out[0].ravel())
# reference
sig=min(2.38,0.99)
for k in range(3):
    diff=u[k]-mu[0]; dot=diff@np.linalg.inv(cov[0])@diff
    rec=[l for l in log if l[0]=="gamma"][k]; assert abs(rec[1]-(1+4)/2)<1e-12 and abs(rec[2]-2/(4+dot))<1e-12
    s=1/(rec[3]*rec[2]); z=[l for l in log if l[0]=="randn"][k][2]
    up=mu[0]+np.sqrt(1-sig**2)*diff+sig*np.sqrt(s)*0.1*z
    a=-0.5*np.sum(((up-0.5)/0.1)**2)+0.5*np.sum(((u[k]-0.5)/0.1)**2)
    corr=multivariate_t.logpdf(u[k],loc=mu[0],shape=cov[0],df=4)-multivariate_t.logpdf(up,loc=mu[0],shape=cov[0],df=4)
    alpha=min(1,np.exp(0.8*a+corr)); r=[0.2,0.9,0.5][k]
    print(k,"ref proposal",up,"alpha %.3f"%alpha,"accept",r<alpha,"-> expected",(up if r<alpha else u[k]))
