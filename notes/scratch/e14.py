import numpy as np, warnings
warnings.filterwarnings("ignore")
from tempest import Sampler
calls=[0]
def pt(u): return u
def ll(x): calls[0]+=1; return 0.0
base=dict(prior_transform=pt,log_likelihood=ll,n_dim=2)
cases={
 "n_dim=0":dict(n_dim=0),"n_dim=-1":dict(n_dim=-1),"n_dim=2.0":dict(n_dim=2.0),"n_dim=2.5":dict(n_dim=2.5),"n_dim='2'":dict(n_dim="2"),"n_dim=True":dict(n_dim=True),"n_dim=np.int64(2)":dict(n_dim=np.int64(2)),
 "n_particles=0":dict(n_particles=0),"n_particles=-4":dict(n_particles=-4),"n_particles=8.0":dict(n_particles=8.0),"n_particles=8.5":dict(n_particles=8.5),"n_particles='8'":dict(n_particles="8"),"n_particles=np.int64(8)":dict(n_particles=np.int64(8)),
 "ess_ratio=0":dict(ess_ratio=0),"ess_ratio=-1":dict(ess_ratio=-1.0),"ess_ratio='a'":dict(ess_ratio="a"),"ess_ratio=nan":dict(ess_ratio=float("nan")),"ess_ratio=inf":dict(ess_ratio=float("inf")),
 "vv=0":dict(volume_variation=0),"vv=-1":dict(volume_variation=-1.0),"vv='x'":dict(volume_variation="x"),"vv=nan":dict(volume_variation=float("nan")),
 "sample=foo":dict(sample="foo"),"resample=foo":dict(resample="foo"),"sample=None":dict(sample=None),
 "vectorize+blobs":dict(vectorize=True,blobs_dtype="float"),
 "overlap":dict(periodic=[0],reflective=[0]),"periodic oob":dict(periodic=[2]),"periodic neg":dict(periodic=[-1]),"reflective oob":dict(reflective=[5]),"periodic float":dict(periodic=[0.0]),"periodic np.int":dict(periodic=[np.int64(0)]),"periodic ndarray":dict(periodic=np.array([0])),
 "cluster_every=0":dict(cluster_every=0),"cluster_every=-1":dict(cluster_every=-1),"n_max_clusters=0":dict(n_max_clusters=0),"split_threshold=0":dict(split_threshold=0.0),"split_threshold=-1":dict(split_threshold=-1.0),
 "pool=0":dict(pool=0),"pool=-1":dict(pool=-1),
 "prior not callable":dict(prior_transform=3),
}
for name,kw in cases.items():
    calls[0]=0
    a=dict(base); a.update(kw)
    try:
        s=Sampler(**a); res="CONSTRUCTED"
    except Exception as e:
        res="rejected %s: %s"%(type(e).__name__, str(e).replace("\n"," ")[:70])
    print("%-28s %s (ll calls %d)"%(name,res,calls[0]))
