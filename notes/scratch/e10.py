import numpy as np, warnings, sys, time
warnings.filterwarnings("ignore")
from scipy import stats
from tempest.mcmc import parallel_mcmc
from tempest.modes import ModeStatistics
def trial(kern, btype, m, s, beta, N, seed, d=1, mu_prop=None, cov_scale=1.0, nu=5.0, steps=1):
    rng=np.random.default_rng(seed)
    # target: product of truncated normals N(m, s^2/beta) on [0,1]
    sd=s/np.sqrt(beta)
    a,b=(0-m)/sd,(1-m)/sd
    u=stats.truncnorm.ppf(rng.random((N,d)),a,b,loc=m,scale=sd)
    ll=lambda x:(-0.5*np.sum(((x-m)/s)**2,axis=1),None)
    logl=ll(u)[0]
    per=np.arange(d) if btype=="periodic" else None
    ref=np.arange(d) if btype=="reflective" else None
    mu=np.full((1,d), m if mu_prop is None else mu_prop)
    cov=(np.eye(d)*(sd*cov_scale)**2)[None]
    ms=ModeStatistics(mu,cov,np.array([nu]))
    np.random.seed(seed)
    out=parallel_mcmc(u,u.copy(),logl,None,np.zeros(N,dtype=int),beta,ms,ll,lambda v:v,None,n_steps=1,n_max=steps,sample=kern,periodic=per,reflective=ref,verbose=False)
    u2=out[0]
    D=[stats.kstest(u2[:,j], lambda t: stats.truncnorm.cdf(t,a,b,loc=m,scale=sd)).statistic*np.sqrt(N) for j in range(d)]
    return max(D), out[5], out[6]
t=time.time()
N=40000
for kern in ["rwm","tpcn"]:
  for btype in ["hard","periodic","reflective"]:
    for (m,s) in [(0.5,0.05),(0.02,0.1),(0.5,0.6)]:
        r=[trial(kern,btype,m,s,0.7,N,seed) for seed in range(2)]
        print(kern,btype,(m,s),["%.2f"%x[0] for x in r],"acc %.2f steps %d"%(r[0][1],r[0][2]))
print(time.time()-t)
