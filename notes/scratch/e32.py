import numpy as np, warnings
warnings.filterwarnings("ignore")
from tempest import Sampler
from tempest.tools import effective_sample_size
def pt(u): return 4*u-2
def mk(c):
    def ll(x): return -0.5*np.sum((x/0.3)**2,axis=1)+c
    return ll
worst=0
for seed in range(12):
  for kw in [dict(clustering=False),dict(clustering=True,sample="rwm",resample="syst"),dict(volume_variation=0.3)]:
    rng=np.random.default_rng(seed); c=float(rng.uniform(-1e3,1e3))
    res=[]
    for cc in [0.0,c]:
        np.random.seed(seed)
        s=Sampler(pt,mk(cc),n_dim=2,n_particles=32,vectorize=True,**kw); s.run(n_total=256,progress=False); res.append(s)
    a,b=res
    T=a.state.get_history_length(); 
    if T!=b.state.get_history_length(): print("LEN MISMATCH",seed,kw,c,T,b.state.get_history_length()); continue
    ba=a.state.get_history("beta"); bb=b.state.get_history("beta")
    du=max(np.abs(a.state.get_history("u",index=t)-b.state.get_history("u",index=t)).max() for t in range(T))
    dz=np.abs(b.state.get_history("logz")-a.state.get_history("logz")-ba*c).max()
    dess=np.abs(a.state.get_history("ess")/b.state.get_history("ess")-1).max()
    la,_=a.state.compute_logw_and_logz(1.0); lb,_=b.state.compute_logw_and_logz(1.0)
    dw=np.abs(np.exp(la)-np.exp(lb)).max()
    dfin=abs(b.evidence()[0]-a.evidence()[0]-c)
    worst=max(worst,du,dz,dw,dfin,np.abs(ba-bb).max())
    print(seed,list(kw.items())[0],"c=%.1f"%c,"T",T,"dbeta %.1e du %.1e dlogz %.1e dess %.1e dw %.1e dfin %.1e"%(np.abs(ba-bb).max(),du,dz,dess,dw,dfin))
    # C12
    lw,lz=a.state.compute_logw_and_logz(1.0); ess=effective_sample_size(np.exp(lw-lw.max()))
    assert abs(1-a.state.get_current("beta"))<1e-4 and ess>=256 and abs(lz-a.evidence()[0])<1e-12,(ess,lz,a.evidence())
print("worst",worst)
