import numpy as np, warnings
warnings.filterwarnings("ignore")
from tempest.tools import volume_variation
rng=np.random.default_rng(2)
for logc in [0,1,2,3,4,5,6]:
    errs=[];reg=0
    for t in range(400):
        d=int(rng.integers(1,6)); n=int(rng.integers(5*d,500))
        x=rng.standard_normal((n,d))
        w=np.exp(rng.normal(0,rng.choice([0,1,3]),n))
        U,_=np.linalg.qr(rng.standard_normal((d,d))); V,_=np.linalg.qr(rng.standard_normal((d,d)))
        cond=10**logc; sv=np.geomspace(1,cond,d) if d>1 else np.array([1.0])
        A=U@np.diag(sv)@V.T; b=rng.standard_normal(d)
        y=x@A.T+b
        wn=w/w.sum(); yc=y-(y*wn[:,None]).sum(0); cov=yc.T@(yc*wn[:,None])
        if np.linalg.matrix_rank(cov)<d: reg+=1
        v0=volume_variation(x,w); v1=volume_variation(y,w*7.3)
        errs.append(abs(v1-v0)/v0)
    errs=np.array(errs); print("cond(A)=1e%d"%logc,"max relerr %.2e"%errs.max(),"median %.1e"%np.median(errs),"regularised",reg)
