import numpy as np
from tempest.student import fit_mvstud
from scipy import special
rng=np.random.default_rng(0)
for nu in [1,3,10]:
    for n in [200,5000]:
        Z=rng.standard_normal((n,2))/np.sqrt(rng.chisquare(nu,size=(n,1))/nu)
        print(nu,n,fit_mvstud(Z)[2])
# examine func0 at 1e300
dim=2;n=100; delta=rng.chisquare(2,size=n)*5
def func0(nu):
    w=(nu+dim)/(nu+delta)
    return (-special.psi(nu/2)+np.log(nu/2)+np.sum(np.log(w))/n-np.sum(w)/n+1+special.psi((nu+dim)/2)-np.log((nu+dim)/2))
for v in [1e300,1e100,1e20,1e10,1e6,1e3,10,1]: print(v,func0(v))
