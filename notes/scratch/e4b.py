import numpy as np
from tempest import Sampler
def pt(u): return u
f=0.3; fin=[]
def ll(x):
    out=np.zeros(len(x)); out[x[:,0]>f]=-np.inf; fin.append(int(np.isfinite(out).sum())); return out
np.random.seed(5)
s=Sampler(pt,ll,n_dim=2,n_particles=64,clustering=False,vectorize=True,ess_ratio=4.0)
s._core._initialize_fresh()
for i in range(6):
    s.sample(); print(i, s.state.get_current("beta"), s.state.get_current("logz"), fin[-1], np.log(fin[-1]/64))
