import numpy as np, warnings, sys, os, tempfile, shutil, dill, builtins
warnings.filterwarnings("ignore")
from pathlib import Path
import tempest.core as core
from tempest import Sampler
def pt(u): return u
def ll(x): return -0.5*np.sum(((x-0.4)/0.05)**2,axis=1)
np.random.seed(1)
s=Sampler(pt,ll,n_dim=2,n_particles=16,clustering=False,vectorize=True); s._core._initialize_fresh()
for i in range(4): s.sample()
class CrashFile:
    def __init__(self,real,budget,log): self.real=real; self.budget=budget; self.log=log
    def write(self,b):
        self.log.append(("write",len(b)))
        if self.budget[0] is not None and self.budget[0] < len(b):
            self.real.write(b[:self.budget[0]]); self.real.flush(); os._exit(77)
        if self.budget[0] is not None: self.budget[0]-=len(b)
        return self.real.write(b)
    def flush(self): self.log.append(("flush",)); return self.real.flush()
    def fileno(self): return self.real.fileno()
    def __enter__(self): return self
    def __exit__(self,*a): self.real.close()
    def close(self): self.real.close()
def try_crash(d,budget):
    log=[]
    def my_open(path,mode="r",*a,**k):
        f=builtins.open(path,mode,*a,**k)
        if "w" in mode: return CrashFile(f,[budget],log)
        return f
    pid=os.fork()
    if pid==0:
        core.open=my_open
        try:
            s.save_state(Path(d)/"ck.state")
        except BaseException as e:
            os._exit(3)
        os._exit(0)
    _,st=os.waitpid(pid,0)
    return os.WEXITSTATUS(st)
d=tempfile.mkdtemp()
# first a complete old checkpoint
s.save_state(Path(d)/"ck.state"); size=os.path.getsize(Path(d)/"ck.state"); print("size",size)
s.sample()
res={}
for budget in [0,1,100,size//2,size-1,None]:
    shutil.copy(Path(d)/"ck.state",Path(d)/"ck.bak")
    code=try_crash(d,budget)
    try:
        dd=dill.load(open(Path(d)/"ck.state","rb")); ok="loadable iter=%s"%dd["_current"]["iter"]
    except Exception as e: ok="UNLOADABLE %s"%type(e).__name__
    print("budget",budget,"child exit",code,ok,"files",sorted(os.listdir(d)))
    shutil.copy(Path(d)/"ck.bak",Path(d)/"ck.state")
    for f in os.listdir(d):
        if f.endswith(".temp"): os.unlink(Path(d)/f)
shutil.rmtree(d)
