import numpy as np, warnings, sys, time
warnings.filterwarnings("ignore")
from multiprocessing import Pool
from e27 import work
if __name__=="__main__":
    R=192
    for cl in [True,False]:
      for N in [64,256]:
        with Pool(16) as p: r=np.array(p.map(work,[(9000+i,"rwm","periodic",cl,N) for i in range(R)]))
        nb=int(np.isnan(r[:,0]).sum()); r=r[~np.isnan(r[:,0])]
        mean=r.mean(0); se=r.std(0,ddof=1)/np.sqrt(len(r))
        print("clust",cl,"N",N," ".join("%+.4f(%.1f)"%(mean[i],mean[i]/se[i]) for i in range(3)),"bad",nb, "sd",r.std(0))
