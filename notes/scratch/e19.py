import numpy as np, warnings
warnings.filterwarnings("ignore")
from tempest import Sampler
cnt=[0]
def pt(u): return np.array([4*u[0]-2, np.exp(3*u[1])-1]) if u.ndim==1 else np.stack([4*u[:,0]-2,np.exp(3*u[:,1])-1],1)
def ll_core(x): return -0.5*((x[...,0]/0.3)*(x[...,0]/0.3) + ((x[...,1]-2)/1.5)*((x[...,1]-2)/1.5))
def blob_of(x): return x[...,0]*3.0+x[...,1]
def ll_s(x): cnt[0]+=1; return float(ll_core(x)), float(blob_of(x))
def ll_v(x): cnt[0]+=len(x); return ll_core(x)
def check(s, blobs):
    bad=[]
    for t in range(s.state.get_history_length()):
        u=s.state.get_history("u",index=t); x=s.state.get_history("x",index=t); l=s.state.get_history("logl",index=t)
        if not np.array_equal(np.array([pt(ui) for ui in u]),x): bad.append(("x",t))
        if not np.array_equal(ll_core(x),l): bad.append(("logl",t, np.abs(ll_core(x)-l).max()))
        if u.min()<0 or u.max()>1: bad.append(("cube",t))
        if blobs:
            b=s.state.get_history("blobs",index=t)
            if not np.array_equal(blob_of(x),np.asarray(b).reshape(-1)): bad.append(("blob",t))
    return bad
for kw in [dict(log_likelihood=ll_v,vectorize=True),dict(log_likelihood=ll_s,blobs_dtype="float")]:
  for extra in [dict(),dict(periodic=[0]),dict(reflective=[1],sample="rwm",resample="syst",clustering=False)]:
    cnt[0]=0; np.random.seed(3)
    s=Sampler(pt,n_dim=2,n_particles=32,**kw,**extra); s.run(n_total=256,progress=False)
    print(list(kw)[1],extra,"calls",s.state.get_current("calls"),cnt[0],"bad",check(s,"blobs_dtype" in kw)[:3])
    if "blobs_dtype" in kw:
        x,w,l,b=s.posterior(return_blobs=True,resample=True); print("  posterior blobs aligned", np.array_equal(blob_of(x),np.asarray(b).reshape(-1)), np.array_equal(ll_core(x),l))
