import numpy as np, warnings
warnings.filterwarnings("ignore")
from unittest import mock
from tempest.tools import systematic_resample, trim_weights, effective_sample_size, compute_ess, volume_variation
rng=np.random.default_rng(0)
# systematic with extreme u0
def sysr(n,w,u0):
    with mock.patch("numpy.random.random",return_value=u0): return systematic_resample(n,w)
w=rng.random(7); w/=w.sum(); print("sum",w.sum()-1, np.cumsum(w)[-1]-1)
for u0 in [0.0, 0.5, 1-2**-53, np.nextafter(1,0)]:
    try: print(u0, sysr(5,w,u0))
    except Exception as e: print(u0,"EXC",type(e).__name__,e)
w2=w*(1-1e-9)
for u0 in [0.5,1-1e-12,np.nextafter(1,0)]:
    try: print("sum<1",u0, sysr(5,w2,u0))
    except Exception as e: print("sum<1",u0,"EXC",type(e).__name__,e)
# search for exact-sum failing cases
fails=0
for t in range(20000):
    n=int(rng.integers(1,40)); m=int(rng.integers(1,40))
    w=rng.random(m)**rng.choice([1,5,20]); w/=w.sum()
    try: idx=sysr(n,w,np.nextafter(1,0))
    except IndexError: fails+=1
print("IndexError at u0=1-ulp with normalised w:",fails,"/20000")
# trailing zero weights
w=np.array([0.5,0.5,0.0,0.0]);print(sysr(4,w,np.nextafter(1,0)))
