import numpy as np, warnings
warnings.filterwarnings("ignore")
from tempest import Sampler
def pt(u): return 10*u-5
def ll(x): return -0.5*np.sum(x**2,axis=1)
for ce in [1,2,3,5]:
  for er in [1.0,2.0,3.0]:
    np.random.seed(5)
    try:
        s=Sampler(pt,ll,n_dim=2,n_particles=32,clustering=True,vectorize=True,cluster_every=ce,ess_ratio=er)
        s.run(n_total=128,progress=False)
        b=s.state.get_history("beta"); first=int(np.argmax(b>0))+1
        print("cluster_every",ce,"ess_ratio",er,"ok, first beta>0 at iter",first)
    except Exception as e:
        b=s.state.get_history("beta")
        print("cluster_every",ce,"ess_ratio",er,"EXC",type(e).__name__,str(e)[:80], "iter", s.state.get_current("iter"))
