import numpy as np, warnings, sys, time
warnings.filterwarnings("ignore")
from scipy import stats
from tempest.mcmc import parallel_mcmc
from tempest.modes import ModeStatistics
def trial(kern,N,seed,d,labelling,nmax,beta=0.7,btypes=None):
    rng=np.random.default_rng(seed)
    m=rng.uniform(0.3,0.7,d); s=10**rng.uniform(-1.6,-0.9,d); sd=s/np.sqrt(beta)
    a,b=(0-m)/sd,(1-m)/sd
    u=stats.truncnorm.ppf(rng.random((N,d)),a,b,loc=m,scale=sd)
    ll=lambda x:(-0.5*np.sum(((x-m)/s)**2,axis=1),None)
    K=2
    mus=np.stack([m-0.8*sd,m+0.8*sd]); covs=np.stack([np.diag((sd*rng.uniform(0.5,1.5))**2) for _ in range(K)])
    nu=np.array([3.0,50.0])
    ms=ModeStatistics(mus,covs,nu)
    if labelling=="random": lab=rng.integers(0,K,N)
    else: lab=(np.sum((u-mus[1])**2,1)<np.sum((u-mus[0])**2,1)).astype(int)
    np.random.seed(seed)
    out=parallel_mcmc(u,u.copy(),ll(u)[0],None,lab,beta,ms,ll,lambda v:v,None,n_steps=1,n_max=nmax,sample=kern,verbose=False)
    u2=out[0]; zs=[]
    fs=[lambda v:v[:,0],lambda v:v[:,0]**2,lambda v:(v[:,0]<m[0]).astype(float),lambda v:np.abs(v[:,0]-m[0])]
    if d>1: fs.append(lambda v:v[:,0]*v[:,1])
    for f in fs:
        dd=f(u2)-f(u); zs.append(dd.mean()/(dd.std(ddof=1)/np.sqrt(N)+1e-300))
    cross=np.mean(((np.sum((u2-mus[1])**2,1)<np.sum((u2-mus[0])**2,1)).astype(int))!=((np.sum((u-mus[1])**2,1)<np.sum((u-mus[0])**2,1)).astype(int)))
    return np.round(zs,1), out[6], round(out[5],2), round(cross,3)
N=30000
for kern in ["rwm","tpcn"]:
  for lab in ["random","position"]:
    for d in [1,2]:
      for seed in [1,2]:
        print(kern,lab,"d",d,*trial(kern,N,seed,d,lab,2))
