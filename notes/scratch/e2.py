import numpy as np, sys, os, tempfile, time
from pathlib import Path
from tempest import Sampler
def pt(u): return 10*u-5
def ll(x): return float(-0.5*np.sum(x**2))
import psutil
for pool in [1, 2]:
    try:
        np.random.seed(1)
        t=time.time()
        s=Sampler(pt,ll,n_dim=2,n_particles=16,clustering=False,random_state=0,pool=pool)
        s.run(n_total=64,progress=False)
        print("pool",pool,"ok",s.evidence(), "calls", s.state.get_current("calls"), "children", len(psutil.Process().children(recursive=True)), time.time()-t)
    except Exception as e:
        print("pool",pool,"EXC",type(e).__name__,e, "children", len(psutil.Process().children(recursive=True)))
class FakePool:
    def __init__(self): self.n=0
    def map(self,f,xs):
        self.n+=len(xs); return [f(x) for x in xs]
fp=FakePool()
np.random.seed(1)
s=Sampler(pt,ll,n_dim=2,n_particles=16,clustering=False,random_state=0,pool=fp)
s.run(n_total=64,progress=False)
print("fakepool ok",s.evidence(),"calls",s.state.get_current("calls"),fp.n)
np.random.seed(1)
s2=Sampler(pt,ll,n_dim=2,n_particles=16,clustering=False,random_state=0)
s2.run(n_total=64,progress=False)
print("nopool ok",s2.evidence(),"calls",s2.state.get_current("calls"))
d=tempfile.mkdtemp()
try:
    s.save_state(Path(d)/"x.state"); print("saved with pool")
except Exception as e: print("save with pool EXC", type(e).__name__, e)
