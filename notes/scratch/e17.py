import numpy as np, warnings, sys, time
warnings.filterwarnings("ignore")
from multiprocessing import Pool
from tempest import Sampler
from scipy.stats import norm
m=np.array([0.4,0.55]); s=np.array([0.03,0.06])
def pt(u): return u
def ll(x): return -0.5*np.sum(((x-m)/s)**2,axis=1)
def work(args):
    seed,kern,res,cl,N=args
    np.random.seed(seed)
    t=time.time()
    try:
        return work2(args,t)
    except Exception as e:
        return [np.nan]*7
def work2(args,t):
    seed,kern,res,cl,N=args
    sm=Sampler(pt,ll,n_dim=2,n_particles=N,clustering=cl,vectorize=True,sample=kern,resample=res)
    sm.run(n_total=16*N,progress=False)
    x,w,l=sm.posterior(trim_importance_weights=False)
    mu=np.sum(w[:,None]*x,0); var=np.sum(w[:,None]*(x-m)**2,0)
    return np.r_[(mu-m)/s, var/s**2-1, sm.evidence()[0]-np.sum(np.log(s*np.sqrt(2*np.pi))), time.time()-t, sm.state.get_history_length()]
if __name__=="__main__":
    R=64
    for cl in [True]:
      for kern in ["tpcn","rwm"]:
        for res in ["mult","syst"]:
          for N in [32,128]:
            with Pool(16) as p: r=np.array(p.map(work,[(1000+i,kern,res,cl,N) for i in range(R)]))
            nbad=int(np.isnan(r[:,0]).sum()); r=r[~np.isnan(r[:,0])]; mean=r.mean(0); se=r.std(0,ddof=1)/np.sqrt(len(r))
            print(cl,kern,res,N," ".join("%+.3f(%.1f)"%(mean[i],mean[i]/se[i]) for i in range(5)),"bad %d sd_logz %.3f t=%.1fs iters=%.0f"%(nbad,r[:,4].std(),mean[5],mean[6]))
