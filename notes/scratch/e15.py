import numpy as np, warnings, sys, tempfile, shutil, collections, traceback
warnings.filterwarnings("ignore")
from multiprocessing import Pool
from tempest import Sampler
from tempest.tools import effective_sample_size
def pt(u): return 4*u-2
def ll_s(x): return float(-0.5*np.sum((x/0.3)**2))
def ll_v(x): return -0.5*np.sum((x/0.3)**2,axis=1)
def ll_b(x): return float(-0.5*np.sum((x/0.3)**2)), float(x[0]*2)
class FP:
    def map(self,f,xs): return [f(x) for x in xs]
def work(seed):
    rng=np.random.default_rng(seed)
    d=int(rng.integers(1,4))
    cfg=dict(n_dim=d,n_particles=int(rng.choice([2*d,8,16,32])),ess_ratio=float(rng.choice([0.5,1.0,2.0,3.5])),
      volume_variation=rng.choice([None,None,0.1,0.5,2.0]),clustering=bool(rng.integers(0,2)),normalize=bool(rng.integers(0,2)),
      cluster_every=1,split_threshold=float(rng.choice([0.2,1.0,3.0])),n_max_clusters=rng.choice([None,1,2,4]),
      sample=str(rng.choice(["tpcn","rwm"])),n_steps=rng.choice([None,1,3]),n_max_steps=rng.choice([None,2,10]),resample=str(rng.choice(["mult","syst"])))
    for k in ["volume_variation","n_max_clusters","n_steps","n_max_steps"]:
        if cfg[k] is not None: cfg[k]= float(cfg[k]) if k=="volume_variation" else int(cfg[k])
    mode=int(rng.integers(0,4))
    if mode==0: cfg.update(log_likelihood=ll_v,vectorize=True)
    elif mode==1: cfg.update(log_likelihood=ll_s)
    elif mode==2: cfg.update(log_likelihood=ll_b,blobs_dtype="float")
    else: cfg.update(log_likelihood=ll_s,pool=FP())
    bt=int(rng.integers(0,4))
    if bt==1: cfg["periodic"]=[0]
    if bt==2: cfg["reflective"]=[d-1]
    if bt==3 and d>1: cfg["periodic"]=[0]; cfg["reflective"]=[1]
    se=rng.choice([None,1,3]) if mode!=3 else None
    n_total=int(rng.choice([32,100,256]))
    out=tempfile.mkdtemp()
    np.random.seed(seed)
    desc={k:(v if not callable(v) else v.__name__) for k,v in cfg.items() if k!="pool"}; desc.update(pool=("pool" in cfg),save_every=se,n_total=n_total)
    try:
        s=Sampler(prior_transform=pt,output_dir=out,**cfg)
        s.run(n_total=n_total,progress=False,save_every=None if se is None else int(se))
        beta=s.state.get_current("beta"); logw,_=s.state.compute_logw_and_logz(1.0); ess=effective_sample_size(np.exp(logw-logw.max()))
        ok = (1-beta<1e-4) and ess>=n_total
        r=("ok" if ok else "POSTCOND", s.state.get_history_length())
    except Exception as e:
        tb=traceback.extract_tb(sys.exc_info()[2])[-1]
        r=("EXC",type(e).__name__,str(e)[:70],"%s:%d"%(tb.filename.split("/")[-1],tb.lineno))
    shutil.rmtree(out,ignore_errors=True)
    return r,desc
if __name__=="__main__":
    with Pool(16) as p: res=p.map(work, [s for s in range(400)])
    c=collections.Counter(r[0] if r[0]!="ok" else "ok" for r,d in res); 
    for k,v in c.items(): print(v,k)
    shown=set()
    for r,d in res:
        if r[0]!="ok":
            shown.add(r); print(r,d)
    print("max iters", max(r[1] for r,d in res if r[0]=="ok"))
