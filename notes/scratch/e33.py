import numpy as np, warnings
from fractions import Fraction
from tempest.mcmc import apply_boundary_conditions as abc, check_bounds
def tri(v):
    f=Fraction(v); r=f%2; return float(r if r<=1 else 2-r)
def per(v): return float(Fraction(v)%1)
vals=[0.0,-0.0,1.0,-1.0,2.0,3.0,5e-324,-5e-324,np.nextafter(1,0),np.nextafter(1,2),np.nextafter(0,-1),-1e-17,1e-17,2.5,-2.5,3.7,1e15+0.5,-(1e15+0.5),2**53+1.0,9.3e18,-9.3e18,1e19,1e300,-1e300,np.nextafter(2,3),np.nextafter(-1,0),np.nextafter(-1,-2)]
for v in vals:
    with warnings.catch_warnings():
        warnings.simplefilter("ignore")
        r=abc(np.array([v,v]),periodic=np.array([0]),reflective=np.array([1]))
    print("%-24r periodic %-22r exact %-22r | reflective %-22r exact %-22r %s"%(v,r[0],per(v),r[1],tri(v),"" if (0<=r[1]<=1 and abs(r[1]-tri(v))<1e-15) else "<-- REFLECT BAD"))
