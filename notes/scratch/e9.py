import numpy as np, warnings, sys
warnings.filterwarnings("ignore")
from multiprocessing import Pool
from tempest import Sampler
sig=0.1
def pt(u): return u
def ll(x): return -0.5*np.sum((x/sig)**2,axis=1)
def work(args):
    seed,kern,d=args
    np.random.seed(seed)
    s=Sampler(pt,ll,n_dim=d,n_particles=64,clustering=False,vectorize=True,sample=kern)
    s.run(n_total=1024,progress=False)
    x,w,l=s.posterior()
    return np.sum(w*x[:,0]), s.evidence()[0]
if __name__=="__main__":
    from scipy.stats import norm
    for d in [1,2]:
      for kern in ["rwm","tpcn"]:
        with Pool(16) as p: r=np.array(p.map(work,[(s,kern,d) for s in range(48)]))
        truth=sig*np.sqrt(2/np.pi); zt=d*np.log(sig*np.sqrt(2*np.pi)*(norm.cdf(1/sig)-0.5))
        print(d,kern,"mean est",r[:,0].mean(),"+-",r[:,0].std()/np.sqrt(len(r)),"truth",truth, "| logZ",r[:,1].mean(),"+-",r[:,1].std()/np.sqrt(len(r)),"truth",zt)
