import numpy as np, warnings, sys, time
warnings.filterwarnings("ignore")
from multiprocessing import Pool
from tempest import Sampler
m=np.array([0.4,0.55]); s=np.array([0.03,0.06])
def pt(u): return u
def ll(x): return -0.5*np.sum(((x-m)/s)**2,axis=1)
def work(args):
    seed,kern,N=args
    np.random.seed(seed)
    sm=Sampler(pt,ll,n_dim=2,n_particles=N,clustering=False,vectorize=True,sample=kern)
    sm.run(n_total=16*N,progress=False)
    out=[]
    for trim in [False,True]:
        x,w,l=sm.posterior(trim_importance_weights=trim)
        mu=np.sum(w[:,None]*x,0); var=np.sum(w[:,None]*(x-m)**2,0)
        # tail prob beyond 2 sigma in coord 0
        tail=np.sum(w*(np.abs(x[:,0]-m[0])>2*s[0]))
        out+= list((mu-m)/s)+list(var/s**2-1)+[tail-0.0455]
    # also last-batch-only estimate (pure SMC particle approx at beta=1)
    xl=sm.state.get_history("x",index=sm.state.get_history_length()-1)
    out+=list(np.mean((xl-m)**2,0)/s**2-1)
    return out
if __name__=="__main__":
    R=128
    for kern in ["tpcn","rwm"]:
      for N in [32,128]:
        with Pool(16) as p: r=np.array(p.map(work,[(5000+i,kern,N) for i in range(R)]))
        mean=r.mean(0); se=r.std(0,ddof=1)/np.sqrt(R)
        print(kern,N,"notrim:"," ".join("%+.3f(%.1f)"%(mean[i],mean[i]/se[i]) for i in range(5)))
        print(kern,N,"  trim:"," ".join("%+.3f(%.1f)"%(mean[i],mean[i]/se[i]) for i in range(5,10)))
        print(kern,N,"  lastbatch var:"," ".join("%+.3f(%.1f)"%(mean[i],mean[i]/se[i]) for i in range(10,12)))
