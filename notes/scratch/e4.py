import numpy as np
from tempest import Sampler
def pt(u): return u
f=0.3
def ll(x):
    out=np.zeros(len(x)); out[x[:,0]>f]=-np.inf; return out - 0.5*np.sum(((x-0.1)/0.2)**2,axis=1)*0  # flat on support
np.random.seed(5)
s=Sampler(pt,ll,n_dim=2,n_particles=64,clustering=False,vectorize=True,ess_ratio=4.0)
s.run(n_total=512,progress=False)
b=s.state.get_history("beta"); lz=s.state.get_history("logz")
print("log f", np.log(f))
for t in range(len(b)):
    print(t,b[t],lz[t], np.isinf(s.state.get_history("logl",index=t)).sum())
print("final", s.evidence())
