import numpy as np, warnings, sys, time
warnings.filterwarnings("ignore")
from scipy import stats
from tempest.mcmc import parallel_mcmc
from tempest.modes import ModeStatistics
kap=20.0; u0=0.02
def trial(kern,N,seed,n_steps,n_max,K2=True,freeze=False):
    rng=np.random.default_rng(seed)
    th=stats.vonmises.rvs(kap,size=N,random_state=rng)
    u=((th/(2*np.pi)+u0)%1.0)[:,None]
    ll=lambda x:(kap*np.cos(2*np.pi*(x[:,0]-u0)),None)
    logl=ll(u)[0]
    if K2:
        a=(u[:,0]>0.5).astype(int)
        mu=np.array([[u[a==0].mean()],[u[a==1].mean()]]); cov=np.array([[[u[a==0].var()]],[[u[a==1].var()]]])
        ms=ModeStatistics(mu,cov,np.array([1e6,1e6]))
    else:
        a=np.zeros(N,dtype=int); ms=ModeStatistics(np.array([[0.02]]),np.array([[[0.036**2]]]),np.array([1e6]))
    np.random.seed(seed)
    out=parallel_mcmc(u,u.copy(),logl,None,a,1.0,ms,ll,lambda v:v,None,n_steps=n_steps,n_max=n_max,sample=kern,periodic=np.array([0]),reflective=None,verbose=False)
    a0=2*np.pi*(u[:,0]-u0); a1=2*np.pi*(out[0][:,0]-u0)
    zs=[]
    for f in [np.sin,np.cos,lambda t:np.sin(2*t),lambda t:np.cos(2*t)]:
        d=f(a1)-f(a0); zs.append(d.mean()/(d.std(ddof=1)/np.sqrt(N)))
    return zs,out[6]
N=30000
for kern in ["rwm","tpcn"]:
 for K2 in [True,False]:
  for (ns,nm) in [(1,1),(5,5)]:
    for seed in [1,2]:
        zs,st=trial(kern,N,seed,ns,nm,K2)
        print(kern,"K2",K2,"steps",st,"z:"," ".join("%+.1f"%z for z in zs))
