import numpy as np
from tempest import Sampler
def pt(u): return 10*u-5
def ll(x): return -0.5*np.sum(x**2,axis=1)
np.random.seed(5)
s=Sampler(pt,ll,n_dim=2,n_particles=32,clustering=False,vectorize=True)
s.run(n_total=256,progress=False)
for kw in [dict(), dict(return_logw=True), dict(return_logw=True,trim_importance_weights=False), dict(return_logw=True,resample=True), dict(return_blobs=True,return_logw=True)]:
    out=s.posterior(**kw)
    print(kw, [o.shape for o in out])
# results aliasing
r=s.results(); r["logl"][:]=7; r2=s.results(); print("results aliased:", r2["logl"].flat[0]==7, r is r2)
td=s.state.to_dict(); td["_history"]["logl"][0][:]=99; print("to_dict history aliased:", s.state.get_history("logl",index=0)[0]==99)
td["_current"]["u"][:]=5; print("to_dict current aliased:", s.state.get_current("u")[0,0]==5)
# does later evidence change?
print(s.state.compute_logw_and_logz(1.0)[1], s.evidence())
