import numpy as np
from tempest import Sampler
from tempest.cluster import HierarchicalGaussianMixture, GaussianMixture
def pt(u): return 10*u-5
def ll(x): return -0.5*np.sum(x**2,axis=1)
def run(rs, clustering):
    s=Sampler(pt,ll,n_dim=2,n_particles=32,clustering=clustering,random_state=rs,vectorize=True)
    s.run(n_total=128,progress=False)
    return s.evidence()[0], s.state.get_history_length()
for cl in [False, True]:
    print("clustering",cl, run(0,cl), run(0,cl), run(1,cl))
# global stream after fit
X=np.random.rand(200,2)
for seed in [1,2]:
    np.random.seed(seed); HierarchicalGaussianMixture().fit(X); print("after HGM fit seed",seed, np.random.rand())
    np.random.seed(seed); GaussianMixture(2).fit(X); print("after GM(random_state=None) fit seed",seed, np.random.rand())
    np.random.seed(seed); GaussianMixture(2,random_state=3).fit(X); print("after GM(random_state=3) fit seed",seed, np.random.rand())
