import numpy as np, warnings
warnings.filterwarnings("ignore")
from tempest.cluster import HierarchicalGaussianMixture
from tempest.tools import trim_weights
rng=np.random.default_rng(0)
bad=0; tot=0; multi=0
for trial in range(400):
    d=int(rng.integers(1,4)); k=int(rng.integers(1,4)); n=int(rng.integers(40,400))
    cents=rng.random((k,d)); sc=10**rng.uniform(-2.5,-0.7,size=k)
    comp=rng.integers(0,k,size=n)
    u=np.clip(cents[comp]+sc[comp,None]*rng.standard_normal((n,d)),0,1)
    w=np.exp(rng.normal(0, rng.uniform(0,3), size=n)); w/=w.sum()
    idx,wt=trim_weights(np.arange(n),w.copy(),ess=0.99,bins=1000)
    h=HierarchicalGaussianMixture(normalize=bool(rng.integers(0,2)))
    try:
        h.fit(u[idx],wt)
    except Exception as e:
        print("fit exc",type(e).__name__,e); continue
    tot+=1
    if h.n_clusters_>1: multi+=1
    lab=h.predict(u[idx]); lab_all=h.predict(u)
    if len(np.unique(lab))!=h.n_clusters_ or not set(np.unique(lab_all))<=set(np.unique(lab)):
        bad+=1
        if bad<6: print("MISMATCH trial",trial,"d",d,"n",n,"K",h.n_clusters_,"uniq trimmed",np.unique(lab),"uniq all",np.unique(lab_all), "hier counts",np.bincount(h.labels_))
print(tot,multi,bad)
