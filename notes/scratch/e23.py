import numpy as np, warnings, traceback, sys
warnings.filterwarnings("ignore")
from tempest import Sampler
m=np.array([0.4,0.55]); s=np.array([0.03,0.06])
def pt(u): return u
def ll(x): return -0.5*np.sum(((x-m)/s)**2,axis=1)
for seed in range(1000,1064):
  for kern,res in [("tpcn","mult"),("tpcn","syst"),("rwm","mult")]:
    np.random.seed(seed)
    try:
        sm=Sampler(pt,ll,n_dim=2,n_particles=32,clustering=True,vectorize=True,sample=kern,resample=res)
        sm.run(n_total=512,progress=False)
    except Exception as e:
        print(seed,kern,res); traceback.print_exc(limit=-6); sys.exit()
