import numpy as np, warnings, traceback, sys, collections
warnings.filterwarnings("ignore")
from multiprocessing import Pool
import tempest.steps.mutate as M
from tempest import Sampler
def work(seed):
    rng=np.random.default_rng(seed)
    d=int(rng.integers(1,3)); k=int(rng.integers(2,4))
    cents=rng.uniform(0.1,0.9,(k,d)); wid=10**rng.uniform(-2.2,-1.2,k); amp=rng.uniform(-6,0,k)
    def ll(x): return np.logaddexp.reduce([amp[j]-0.5*np.sum(((x-cents[j])/wid[j])**2,axis=1) for j in range(k)],axis=0)
    ce=int(rng.choice([1,2,3,5])); N=int(rng.choice([32,64]))
    rec=[]
    orig=M.parallel_mcmc
    def wrap(**kw):
        a=kw["assignments"]; ms=kw["mode_stats"]
        rec.append((int(a.max()),ms.K,len(np.unique(a))))
        return orig(**kw)
    M.parallel_mcmc=wrap
    np.random.seed(seed)
    try:
        s=Sampler(lambda u:u,ll,n_dim=d,n_particles=N,clustering=True,vectorize=True,cluster_every=ce,split_threshold=float(rng.choice([0.3,1.0])))
        s.run(n_total=8*N,progress=False); res="ok"
    except Exception as e:
        tb=traceback.extract_tb(sys.exc_info()[2]); res=type(e).__name__+":"+str(e)[:40]+"@"+tb[-2].name+"/"+tb[-1].name
    M.parallel_mcmc=orig
    mism=[r for r in rec if r[0]>=r[1]]
    maxK=max([r[1] for r in rec],default=0)
    return (ce,res,len(mism)>0,maxK>1)
if __name__=="__main__":
    with Pool(16) as p: r=p.map(work,range(3000,3400))
    for k,v in sorted(collections.Counter(r).items(),key=str): print(v,k)
