import numpy as np, warnings, sys, time
warnings.filterwarnings("ignore")
from scipy import stats
from scipy.special import i0,i1
from tempest.mcmc import parallel_mcmc
from tempest.modes import ModeStatistics
kap=20.0; u0=0.02
def trial(kern,N,seed,n_steps,n_max,K2=True):
    rng=np.random.default_rng(seed)
    th=stats.vonmises.rvs(kap,size=N,random_state=rng)   # angle around 0
    u=((th/(2*np.pi)+u0)%1.0)[:,None]
    ll=lambda x:(kap*np.cos(2*np.pi*(x[:,0]-u0)),None)
    logl=ll(u)[0]
    if K2:
        a=(u[:,0]>0.5).astype(int)
        mu=np.array([[u[a==0].mean()],[u[a==1].mean()]]); cov=np.array([[[u[a==0].var()]],[[u[a==1].var()]]])
        ms=ModeStatistics(mu,cov,np.array([1e6,1e6]))
    else:
        a=np.zeros(N,dtype=int); ms=ModeStatistics(np.array([[0.02]]),np.array([[[0.036**2]]]),np.array([1e6]))
    np.random.seed(seed)
    out=parallel_mcmc(u,u.copy(),logl,None,a,1.0,ms,ll,lambda v:v,None,n_steps=n_steps,n_max=n_max,sample=kern,periodic=np.array([0]),reflective=None,verbose=False)
    ang=2*np.pi*(out[0][:,0]-u0)
    return np.mean(np.sin(ang)), np.mean(np.cos(ang))-i1(kap)/i0(kap), out[6], out[5]
N=40000
for K2 in [True,False]:
  for (ns,nm) in [(1,1),(5,5),(20,20)]:
    r=trial("rwm",N,1,ns,nm,K2)
    sd_sin=np.sqrt(0.5*(1-stats.vonmises.expect(lambda t:np.cos(2*t),args=(kap,)))) 
    print("K2",K2,"steps",r[2],"acc %.2f"%r[3],"sin %.4f (%.1f sigma)"%(r[0], r[0]/(sd_sin/np.sqrt(N))),"cos err %.4f"%r[1])
