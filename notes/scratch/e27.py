import numpy as np, warnings, sys, time
warnings.filterwarnings("ignore")
from multiprocessing import Pool
from scipy.special import i0, i1
from tempest import Sampler
kap=20.0; u0=0.02
def pt(u): return u
def ll(x): return kap*np.cos(2*np.pi*(x[:,0]-u0)) - 0.5*((x[:,1]-0.5)/0.1)**2
def work(args):
    seed,kern,bt,cl,N=args
    np.random.seed(seed)
    kw={} if bt=="hard" else ({"periodic":[0]} if bt=="periodic" else {"reflective":[0]})
    try:
        sm=Sampler(pt,ll,n_dim=2,n_particles=N,clustering=cl,vectorize=True,sample=kern,**kw)
        sm.run(n_total=16*N,progress=False)
    except Exception: return [np.nan]*3
    x,w,l=sm.posterior(trim_importance_weights=False)
    ang=2*np.pi*(x[:,0]-u0)
    return [np.sum(w*np.cos(ang))-i1(kap)/i0(kap), np.sum(w*np.sin(ang)), sm.evidence()[0]-np.log(i0(kap))-np.log(0.1*np.sqrt(2*np.pi))]
if __name__=="__main__":
    R=96
    for cl in [False,True]:
     for bt in ["periodic","hard"]:
      for kern in ["tpcn","rwm"]:
        N=64
        with Pool(16) as p: r=np.array(p.map(work,[(7000+i,kern,bt,cl,N) for i in range(R)]))
        nb=int(np.isnan(r[:,0]).sum()); r=r[~np.isnan(r[:,0])]
        mean=r.mean(0); se=r.std(0,ddof=1)/np.sqrt(len(r))
        print("clust",cl,bt,kern," ".join("%+.4f(%.1f)"%(mean[i],mean[i]/se[i]) for i in range(3)),"bad",nb, "sd",r.std(0))
