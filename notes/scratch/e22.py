import numpy as np, warnings, collections
warnings.filterwarnings("ignore")
from scipy.special import logsumexp
from tempest.state_manager import StateManager
from tempest.steps.reweight import Reweighter
rng=np.random.default_rng(3)
def ref_logw(logl_batches,betas,logzs,beta):
    n=np.array([len(b) for b in logl_batches]); N=n.sum(); L=np.concatenate(logl_batches)
    comp=L[:,None]*np.array(betas)[None,:]-np.array(logzs)[None,:]+np.log(n/N)[None,:]
    lw=beta*L-logsumexp(comp,axis=1); return lw, logsumexp(lw)-np.log(N)
def ess_of(lw): w=np.exp(lw-lw.max()); w/=w.sum(); return 1/np.sum(w**2)
c=collections.Counter(); samples=[]
for trial in range(600):
    d=int(rng.integers(1,4)); npart=int(rng.choice([8,16,32,64])); T=int(rng.integers(1,8))
    er=float(rng.choice([0.5,1,2,3])); vv=rng.choice([None,None,0.05,0.3,1.0,5.0])
    vv=None if vv is None else float(vv)
    sm=StateManager(d)
    # synthetic consistent-ish history: betas nondecreasing, logl from gaussian target at each beta
    scale=10**rng.uniform(-0.5,3)
    betas=np.sort(np.r_[0, rng.random(T-1)**rng.choice([1,3])*rng.choice([1,0.1,1e-3])]) if T>1 else np.array([0.0])
    for t in range(T):
        nt=npart
        u=rng.random((nt,d)); 
        # draw logl as -scale*chi2/ (1+beta*scale)
        logl=-0.5*scale*rng.chisquare(d,nt)/(1+betas[t]*scale)
        logz=-0.5*d*np.log(1+betas[t]*scale)+rng.normal(0,0.05)
        sm.update_current(dict(u=u,x=u.copy(),logl=logl,beta=float(betas[t]),logz=float(logz),iter=t+1,calls=0,steps=1,acceptance=1.0,efficiency=1.0,ess=1.0))
        sm.commit_current_to_history()
    rw=Reweighter(sm,None,npart,er,vv,0.01,1e-4)
    bprev=float(betas[-1])
    try:
        w=rw.run()
    except Exception as e:
        c["EXC "+type(e).__name__+str(e)[:50]]+=1; continue
    b=sm.get_current("beta"); lz=sm.get_current("logz"); es=sm.get_current("ess")
    LB=[sm.get_history("logl",index=t) for t in range(T)]; BZ=sm.get_history("beta"); LZ=sm.get_history("logz")
    lw,lzr=ref_logw(LB,BZ,LZ,b); wr=np.exp(lw-logsumexp(lw)); essr=ess_of(lw); target=er*npart
    if not (bprev<=b<=1): c["beta-range"]+=1
    if not np.allclose(w,wr,rtol=1e-9,atol=1e-300): c["weights-mismatch"]+=1
    if abs(lz-lzr)>1e-9*max(1,abs(lzr)): c["logz-mismatch"]+=1
    if abs(es-essr)>1e-9*essr: c["ess-mismatch"]+=1
    if b>bprev:
        c["advanced"]+=1
        if vv is None and essr<target*(1-1e-9): c["ESS-below-target (ess mode) %.3f"%(essr/target)]+=1
        if vv is not None:
            grid=np.r_[b,np.linspace(b,1,200)]
            if max(ess_of(ref_logw(LB,BZ,LZ,g)[0]) for g in grid)<target*(1-1e-9): c["VV-beyond-ESS-limit"]+=1
            if essr<target*(1-1e-9): c["vv: ess below target at chosen beta"]+=1
    else: c["stayed"]+=1
    c["ok"]+=1
for k,v in c.items(): print(v,k)
