import numpy as np, warnings, sys
warnings.filterwarnings("ignore")
from multiprocessing import Pool
from tempest.cluster import HierarchicalGaussianMixture
from tempest.tools import trim_weights
def work(seed):
    rng=np.random.default_rng(seed)
    out=[]
    for trial in range(150):
        d=int(rng.integers(1,4)); k=int(rng.integers(2,6)); n=int(rng.integers(20,300))
        mode=rng.integers(0,4)
        cents=rng.random((k,d))
        if mode==1: cents[1:]=cents[0]+0.02*rng.standard_normal((k-1,d))   # nested/concentric
        sc=10**rng.uniform(-3,-0.5,size=k)
        pk=rng.dirichlet(np.ones(k)*rng.choice([0.2,1,5]))
        comp=rng.choice(k,size=n,p=pk)
        u=cents[comp]+sc[comp,None]*rng.standard_normal((n,d))
        if mode==2: u=np.round(u,2)   # duplicates
        u=np.clip(u,0,1)
        w=np.exp(rng.normal(0, rng.choice([0,1,3,6]), size=n)); w/=w.sum()
        idx,wt=trim_weights(np.arange(n),w.copy(),ess=0.99,bins=1000)
        nmc=rng.choice([0,2,3,5])
        h=HierarchicalGaussianMixture(normalize=bool(rng.integers(0,2)), max_iterations=1000 if nmc==0 else nmc-1, min_points=None if nmc==0 else 4*d, threshold_modifier=float(rng.choice([0.1,0.5,1.0])))
        try:
            h.fit(u[idx],wt)
            lab=h.predict(u[idx]); lab_all=h.predict(u)
        except Exception as e:
            out.append(("EXC",seed,trial,type(e).__name__,str(e)[:80])); continue
        K=h.n_clusters_
        if len(np.unique(lab))!=K or not set(np.unique(lab_all))<=set(np.unique(lab)):
            out.append(("MISMATCH",seed,trial,d,n,K,np.unique(lab).tolist(),np.unique(lab_all).tolist(),np.bincount(h.labels_).tolist(),int(mode)))
        else: out.append(("ok",K))
    return out
if __name__=="__main__":
    with Pool(16) as p: res=p.map(work, range(32))
    flat=[r for rr in res for r in rr]
    print(len(flat), sum(1 for r in flat if r[0]=="ok" and r[1]>1), sum(1 for r in flat if r[0]=="MISMATCH"), sum(1 for r in flat if r[0]=="EXC"))
    for r in flat:
        if r[0]!="ok": print(r)
