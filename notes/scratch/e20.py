import numpy as np, warnings, collections
warnings.filterwarnings("ignore")
from tempest.tools import trim_weights, effective_sample_size, compute_ess, volume_variation
rng=np.random.default_rng(1)
c=collections.Counter()
worst=0
for t in range(3000):
    n=int(rng.integers(1,2000)); kind=rng.integers(0,5)
    if kind==0: w=rng.random(n)
    elif kind==1: w=np.exp(rng.normal(0,rng.choice([1,5,30,200]),n))
    elif kind==2: w=np.ones(n)
    elif kind==3: w=rng.random(n); w[rng.random(n)<0.7]=0; w[0]=1
    else: w=np.round(rng.random(n),1)+0.1
    w=w/ w.sum() if np.isfinite(w.sum()) and w.sum()>0 else None
    if w is None: c["skip"]+=1; continue
    ess=float(rng.uniform(0.01,0.999)); bins=int(rng.choice([2,10,100,1000]))
    w0=w.copy()
    try:
        idx,wt=trim_weights(np.arange(n),w,ess=ess,bins=bins)
    except Exception as e:
        c["EXC "+type(e).__name__+str(e)[:40]]+=1; continue
    if not np.array_equal(w,w0): c["input mutated"]+=1
    w0n=w0/w0.sum()
    if abs(wt.sum()-1)>1e-9: c["notnorm"]+=1
    thr=w0n[idx].min() if len(idx) else None
    comp=np.setdiff1d(np.arange(n),idx)
    if len(comp) and w0n[comp].max()>=thr: c["not-upper-set"]+=1
    e0=effective_sample_size(w0n); e1=effective_sample_size(wt)
    if e1/e0 < ess*(1-1e-12): c["ess-ratio"]+=1
    if not np.allclose(wt, w0n[idx]/w0n[idx].sum(), rtol=1e-12): c["misaligned"]+=1
    E=effective_sample_size(w0n)
    if not (1-1e-9<=E<=n*(1+1e-12)): c["ess-range %g %d"%(E,n)]+=1
    c["ok"]+=1
print(c)
# volume variation invariance
errs=[]
for t in range(2000):
    d=int(rng.integers(1,6)); n=int(rng.integers(d+1,500))
    x=rng.standard_normal((n,d))@ (np.eye(d)+0.5*rng.standard_normal((d,d)))
    w=np.exp(rng.normal(0,rng.choice([0,1,4]),n))
    U,_=np.linalg.qr(rng.standard_normal((d,d))); V,_=np.linalg.qr(rng.standard_normal((d,d)))
    cond=10**rng.uniform(0,6); sv=np.geomspace(1,cond,d) if d>1 else np.array([cond])
    A=U@np.diag(sv)@V.T*10**rng.uniform(-3,3); b=rng.standard_normal(d)*10**rng.uniform(-2,3)
    v0=volume_variation(x,w); v1=volume_variation(x@A.T+b,w*7.3)
    errs.append((abs(v1-v0)/max(v0,1e-300),cond,d,n,v0))
errs.sort(reverse=True); print(errs[:8]); print("frac >1e-6", np.mean([e[0]>1e-6 for e in errs]))
