import numpy as np, warnings, sys, time
warnings.filterwarnings("ignore")
from multiprocessing import Pool
from tempest import Sampler
c1=np.array([0.3,0.3]); c2=np.array([0.7,0.65]); s1=0.03; s2=0.05; p1=0.7
rho=0.9; mc=np.array([0.5,0.45]); sc=np.array([0.05,0.08])
def ll_bi(x):
    a=np.log(p1)-np.log(2*np.pi*s1**2)-0.5*np.sum(((x-c1)/s1)**2,axis=1)
    b=np.log(1-p1)-np.log(2*np.pi*s2**2)-0.5*np.sum(((x-c2)/s2)**2,axis=1)
    return np.logaddexp(a,b)   # normalised: Z=1
def ll_co(x):
    z=(x-mc)/sc
    return -0.5*(z[:,0]**2-2*rho*z[:,0]*z[:,1]+z[:,1]**2)/(1-rho**2)
def work(args):
    seed,tgt,kern,cl,N=args
    np.random.seed(seed)
    try:
        sm=Sampler(lambda u:u, ll_bi if tgt=="bi" else ll_co,n_dim=2,n_particles=N,clustering=cl,vectorize=True,sample=kern)
        sm.run(n_total=16*N,progress=False)
    except Exception: return [np.nan]*4
    x,w,l=sm.posterior(trim_importance_weights=False)
    if tgt=="bi":
        m1=np.sum(w*(x[:,0]<0.5)); 
        mean0=np.sum(w*x[:,0]); tm=p1*c1[0]+(1-p1)*c2[0]; tv=p1*(s1**2+c1[0]**2)+(1-p1)*(s2**2+c2[0]**2)-tm**2
        return [m1-p1,(mean0-tm)/np.sqrt(tv), sm.evidence()[0]-0.0, sm.state.get_history_length()]
    else:
        z=(x-mc)/sc; 
        return [np.sum(w*z[:,0]), np.sum(w*z[:,0]*z[:,1])-rho, sm.evidence()[0]-np.log(2*np.pi*sc[0]*sc[1]*np.sqrt(1-rho**2)), sm.state.get_history_length()]
if __name__=="__main__":
    R=64; N=64
    for tgt in ["bi","co"]:
      for cl in [False,True]:
        for kern in ["tpcn","rwm"]:
          with Pool(16) as p: r=np.array(p.map(work,[(11000+i,tgt,kern,cl,N) for i in range(R)]))
          nb=int(np.isnan(r[:,0]).sum()); r=r[~np.isnan(r[:,0])]
          mean=r.mean(0); se=r.std(0,ddof=1)/np.sqrt(len(r))
          print(tgt,"clust",cl,kern," ".join("%+.4f(%.1f)"%(mean[i],mean[i]/se[i]) for i in range(3)),"bad",nb,"sd",np.round(r.std(0)[:3],3),"iters %.0f"%mean[3])
