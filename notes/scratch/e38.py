import numpy as np, warnings, collections
warnings.filterwarnings("ignore")
from tempest.cluster import GaussianMixture
rng=np.random.default_rng(5)
errs=[]
for t in range(400):
    d=int(rng.integers(1,5)); k=int(rng.integers(1,4)); n=int(rng.integers(2*d+2,120))
    cents=rng.random((k,d)); sc=10**rng.uniform(-2,-0.3,k); comp=rng.integers(0,k,n)
    X=cents[comp]+sc[comp,None]*rng.standard_normal((n,d))
    c=rng.integers(0,4,n); 
    if c.sum()==0: c[0]=1
    K=int(rng.integers(1,4)); ct=str(rng.choice(["full","diag"]))
    rs=int(rng.integers(0,100))
    g1=GaussianMixture(K,covariance_type=ct,random_state=rs,tol=-np.inf,max_iter=25).fit(X,c.astype(float))
    Xr=np.repeat(X,c,axis=0)
    g2=GaussianMixture(K,covariance_type=ct,random_state=rs,tol=-np.inf,max_iter=25).fit(Xr)
    e=max(np.abs(g1.means_-g2.means_).max(), np.abs(g1.weights_-g2.weights_).max(), np.abs(np.asarray(g1.covariances_)-np.asarray(g2.covariances_)).max())
    errs.append((e,K,ct,n,d))
errs.sort(reverse=True); print(errs[:6]); print("frac>1e-8", np.mean([e[0]>1e-8 for e in errs]))
