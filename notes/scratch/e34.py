import numpy as np, warnings, sys
warnings.filterwarnings("ignore")
from tempest import Sampler
def pt(u): return u
def ll(x): return -0.5*np.sum(((x-0.4)/0.05)**2,axis=1)
def twin(t_div, clustering, a, b):
    outs=[]
    for s2 in (a,b):
        np.random.seed(123)
        s=Sampler(pt,ll,n_dim=2,n_particles=32,clustering=clustering,vectorize=True)
        s._core._initialize_fresh()
        for i in range(t_div): s.sample()
        np.random.seed(s2)
        for i in range(3): s.sample()
        outs.append([s.state.get_history("u",index=t) for t in range(t_div+3)]+[s.state.get_history("beta")])
    A,B=outs
    pre=all(np.array_equal(A[t],B[t]) for t in range(t_div))
    post=[float(np.mean(np.all(A[t]==B[t],axis=1))) for t in range(t_div,t_div+3)]
    return pre,post,A[-1][t_div:t_div+3]
for cl in [False,True]:
    for t_div in [2,5,7]:
        print("clustering",cl,"t_div",t_div,twin(t_div,cl,1,2))
