import numpy as np
from scipy.stats import multivariate_t as mt
rng=np.random.default_rng(0); worst=0
for t in range(2000):
    d=int(rng.integers(1,5)); A=rng.standard_normal((d,d)); S=A@A.T+0.1*np.eye(d); mu=rng.random(d); nu=10**rng.uniform(-0.3,3); sig=rng.uniform(0.05,0.99)
    u=mu+rng.standard_normal(d); v=mu+rng.standard_normal(d); Si=np.linalg.inv(S)
    def lq(a,b):
        dl=(a-mu)@Si@(a-mu)
        return mt.logpdf(b,loc=mu+np.sqrt(1-sig**2)*(a-mu),shape=sig**2*(nu+dl)/(nu+d)*S,df=nu+d)
    lhs=mt.logpdf(u,loc=mu,shape=S,df=nu)+lq(u,v); rhs=mt.logpdf(v,loc=mu,shape=S,df=nu)+lq(v,u)
    worst=max(worst,abs(lhs-rhs))
print("worst |lhs-rhs|",worst)
