import numpy as np, warnings, sys, os, tempfile, shutil, copy, traceback
warnings.filterwarnings("ignore")
from pathlib import Path
from tempest import Sampler
from tempest.tools import effective_sample_size
def pt(u): return 4*u-2
def ll_v(x): return -0.5*((x[:,0]/0.3)*(x[:,0]/0.3)+(x[:,1]/0.5)*(x[:,1]/0.5))
def ll_b(x): return float(-0.5*((x[0]/0.3)*(x[0]/0.3)+(x[1]/0.5)*(x[1]/0.5))), float(3*x[0]+x[1])
class FP:
    def map(self,f,xs): return [f(x) for x in xs]
for name,kw in [("vec",dict(log_likelihood=ll_v,vectorize=True,clustering=False)),
                ("vec-clust-ce3",dict(log_likelihood=ll_v,vectorize=True,clustering=True,cluster_every=3)),
                ("blobs-rwm",dict(log_likelihood=ll_b,blobs_dtype="float",sample="rwm",resample="syst")),
                ("pool",dict(log_likelihood=ll_b,blobs_dtype="float",pool=FP())),
                ("pool2",dict(log_likelihood=ll_b,blobs_dtype="float",pool=2))]:
    d=tempfile.mkdtemp()
    try:
        snaps={}
        np.random.seed(3)
        s=Sampler(pt,n_dim=2,n_particles=32,output_dir=d,random_state=5,**kw)
        orig=s._core.save_sampler_state
        def wrap(path,orig=orig,s=s):
            snaps[str(path)]=copy.deepcopy(s.state.to_dict()); return orig(path)
        s._core.save_sampler_state=wrap
        s.run(n_total=256,progress=False,save_every=2)
        files=sorted(snaps)
        res=[]
        for f in files:
            if f.endswith("final.state"): continue
            s2=Sampler(pt,n_dim=2,n_particles=32,output_dir=d,random_state=5,**kw)
            s2.load_state(f); snap=snaps[f]
            same=all(np.array_equal(np.asarray(a),np.asarray(b)) for k in snap["_history"] for a,b in zip(snap["_history"][k], s2.state._history[k])) and all(len(snap["_history"][k])==len(s2.state._history[k]) for k in snap["_history"])
            s3=Sampler(pt,n_dim=2,n_particles=32,output_dir=d,random_state=5,**kw)
            s3.run(n_total=256,progress=False,resume_state_path=f)
            k0=len(snap["_history"]["beta"])
            prefix=all(np.array_equal(np.asarray(snap["_history"][k][i]),np.asarray(s3.state._history[k][i])) for k in snap["_history"] for i in range(len(snap["_history"][k])))
            iters=list(s3.state.get_history("iter")); calls=list(s3.state.get_history("calls")); beta=s3.state.get_history("beta")
            lw,lz=s3.state.compute_logw_and_logz(1.0); ess=effective_sample_size(np.exp(lw-lw.max()))
            ok=(iters==list(range(1,len(iters)+1))) and all(np.diff(calls)>0) and np.all(np.diff(beta)>=0) and abs(1-beta[-1])<1e-4 and ess>=256 and abs(lz-s3.evidence()[0])<1e-9
            res.append((os.path.basename(f),k0,same,prefix,ok,len(iters)))
        print(name,res)
    except Exception as e:
        print(name,"EXC",type(e).__name__,e); traceback.print_exc(limit=-3)
    shutil.rmtree(d,ignore_errors=True)
