"""C04 - importance weights follow the balance-heuristic mixture formula.

REF: the documented formula in 80-bit long double with an independent log-sum-exp.
META: normalisation, permutation of iterations, likelihood rescaling, finiteness.
"""
import numpy as np
from hypothesis import strategies as st

from vlib.core import Violation, lib_call
from vlib.hypo import Check
from vlib.refs import lse_ld, mis_logw

PID = "C04"
LEVEL = "exploration"
RULE = (
    "Hypothesis draws histories through the public StateManager API: T in 1..8 (one case in ten: 60..150) iterations, unequal batch sizes n_t in 1..40, "
    "beta_t in [0,1] in any order with repeats and end points, logz_t in [-1e3,1e3], log-likelihoods from families "
    "{O(1) normal, all-equal, one-dominant, wide 10^U(0,6) spread, tempered-chi2, explicit float lists}, target beta in [0,1] incl. 0 and 1. "
    "Non-trivial = T>=2, not all n_t equal, >=2 distinct beta_t. distinct = case hash."
)
ASSUMPTIONS = [
    "agreement tolerance (64+4N)*eps*max(1,M) with M the largest intermediate magnitude |beta_t*logl|+|logz_t| (rounding the float64 formula is entitled to)",
    "long double (x87 80-bit) reference; if the platform long double is 64-bit the reference is only a re-derivation, not higher precision",
]

EPS = float(np.finfo(np.float64).eps)


@st.composite
def cases(draw):
    long_hist = draw(st.integers(0, 9)) == 0  # occasionally a long history (many iterations, small unequal batches)
    T = draw(st.integers(60, 150)) if long_hist else draw(st.integers(1, 8))
    betas = [draw(st.one_of(st.floats(0.0, 1.0), st.sampled_from([0.0, 1.0, 0.5, 1e-8]))) for _ in range(T)]
    if draw(st.booleans()) and T > 1:
        betas[draw(st.integers(0, T - 1))] = betas[0]  # repeats
    sizes = [draw(st.integers(1, 6 if long_hist else 40)) for _ in range(T)]
    logzs = [draw(st.one_of(st.floats(-1e3, 1e3), st.floats(-5, 5), st.just(0.0))) for _ in range(T)]
    fam = draw(st.sampled_from(["normal", "equal", "dominant", "wide", "chi2"] + ([] if long_hist else ["explicit"])))
    spec = {"T": T, "betas": betas, "sizes": sizes, "logzs": logzs, "family": fam,
            "seed": draw(st.integers(0, 2**31 - 1)),
            "scale_exp": draw(st.floats(0.0, 6.0)),
            "beta": draw(st.one_of(st.floats(0.0, 1.0), st.sampled_from([0.0, 1.0]))),
            "shift": draw(st.one_of(st.floats(-1e3, 1e3), st.floats(-3, 3))),
            "perm_seed": draw(st.integers(0, 10**6))}
    if fam == "explicit":
        spec["sizes"] = sizes = [min(s, 4) for s in sizes]
        spec["logl"] = [[draw(st.floats(-1e6, 1e6)) for _ in range(s)] for s in sizes]
    return spec


def build_logl(case):
    if case["family"] == "explicit":
        return [np.array([float(v) for v in b], dtype=float) for b in case["logl"]]
    rng = np.random.default_rng(case["seed"])
    sc = 10.0 ** float(case["scale_exp"])
    out = []
    for t, n in enumerate(case["sizes"]):
        f = case["family"]
        if f == "normal":
            b = rng.normal(0, 1, n)
        elif f == "equal":
            b = np.full(n, float(rng.normal(0, sc)))
        elif f == "dominant":
            b = rng.normal(-sc, 1, n)
            if t == 0:
                b[0] = sc
        elif f == "wide":
            b = rng.choice([-1.0, 1.0], n) * 10.0 ** rng.uniform(0, case["scale_exp"], n)
        else:
            bt = float(case["betas"][t])
            b = -0.5 * sc * rng.chisquare(2, n) / (1 + bt * sc)
        out.append(np.clip(b, -1e6, 1e6).astype(float))
    return out


def make_state(logl_batches, betas, logzs, d=1):
    from tempest.state_manager import StateManager

    sm = StateManager(d)
    for t, b in enumerate(logl_batches):
        n = len(b)
        u = np.full((n, d), 0.5)
        sm.update_current(dict(u=u, x=u.copy(), logl=np.array(b, dtype=float), beta=float(betas[t]), logz=float(logzs[t]),
                               iter=t + 1, calls=0, steps=1, acceptance=1.0, efficiency=1.0, ess=1.0))
        sm.commit_current_to_history()
    return sm


def execute(case):
    L = build_logl(case)
    betas = [float(b) for b in case["betas"]]
    logzs = [float(z) for z in case["logzs"]]
    beta = float(case["beta"])
    N = sum(len(b) for b in L)
    detail = {"logl": [b.tolist() for b in L], "betas": betas, "logzs": logzs, "beta": beta}
    sm = make_state(L, betas, logzs)
    lw_n, lz = lib_call(sm.compute_logw_and_logz, beta, what="compute_logw_and_logz")
    lw_u, lz_u = lib_call(sm.compute_logw_and_logz, beta, normalize=False, what="compute_logw_and_logz(normalize=False)")
    lw_n, lw_u = np.asarray(lw_n, dtype=float), np.asarray(lw_u, dtype=float)
    r_n, r_lz, M = mis_logw(L, betas, logzs, beta, normalize=True)
    r_u, _, _ = mis_logw(L, betas, logzs, beta, normalize=False)
    tol = (64 + 4 * N) * EPS * max(1.0, M)
    if lw_n.shape != (N,) or lw_u.shape != (N,):
        raise Violation(f"log-weights shape {lw_n.shape}, expected ({N},)", sig={"kind": "shape"}, detail=detail)
    if not (np.all(np.isfinite(lw_n)) and np.all(np.isfinite(lw_u)) and np.isfinite(lz)):
        raise Violation("non-finite log-weight or log-evidence for finite inputs", sig={"kind": "non-finite"}, detail=detail)
    e_u = float(np.max(np.abs(lw_u.astype(np.longdouble) - r_u)))
    if e_u > tol:
        k = int(np.argmax(np.abs(lw_u.astype(np.longdouble) - r_u)))
        raise Violation(f"unnormalised log-weight differs from the documented formula by {e_u:.3g} (> {tol:.3g}) at sample {k}: "
                        f"got {lw_u[k]!r}, reference {float(r_u[k])!r}", sig={"kind": "formula-unnormalised"}, detail=detail)
    e_n = float(np.max(np.abs(lw_n.astype(np.longdouble) - r_n)))
    if e_n > tol:
        raise Violation(f"normalised log-weight differs from the reference by {e_n:.3g} (> {tol:.3g})",
                        sig={"kind": "formula-normalised"}, detail=detail)
    for name, z in (("normalize=True", lz), ("normalize=False", lz_u)):
        if abs(float(z) - float(r_lz)) > tol:
            raise Violation(f"log-evidence ({name}) {float(z)!r} differs from log-mean-exp of the unnormalised weights {float(r_lz)!r}",
                            sig={"kind": "logz"}, detail=detail)
    s = float(lse_ld(lw_n))
    if abs(s) > tol:
        raise Violation(f"normalised weights sum to exp({s:.3g}) != 1", sig={"kind": "normalisation"}, detail=detail)
    # META 2: permuting the iterations permutes the batches only
    T = len(L)
    perm = np.random.default_rng(case["perm_seed"]).permutation(T)
    sm_p = make_state([L[i] for i in perm], [betas[i] for i in perm], [logzs[i] for i in perm])
    lw_p, lz_p = lib_call(sm_p.compute_logw_and_logz, beta, what="compute_logw_and_logz(permuted)")
    off = np.cumsum([0] + [len(b) for b in L])
    back = np.concatenate([np.arange(off[i], off[i + 1]) for i in perm]) if T else np.array([], dtype=int)
    lw_back = np.empty(N)
    lw_back[back] = np.asarray(lw_p, dtype=float)
    if np.max(np.abs(lw_back - lw_n)) > 2 * tol or abs(float(lz_p) - float(lz)) > 2 * tol:
        raise Violation("weights/evidence depend on the order of iterations", sig={"kind": "order-dependence"}, detail=detail)
    # META 3: logl -> logl + c, logz_t -> logz_t + beta_t*c  shifts logz by beta*c, weights unchanged
    c = float(case["shift"])
    sm_s = make_state([b + c for b in L], betas, [z + bt * c for z, bt in zip(logzs, betas)])
    lw_s, lz_s = lib_call(sm_s.compute_logw_and_logz, beta, what="compute_logw_and_logz(shifted)")
    tol_s = (64 + 4 * N) * EPS * max(1.0, M + abs(c) + 1e3 * 0) * 4
    if np.max(np.abs(np.asarray(lw_s, dtype=float) - lw_n)) > tol_s:
        raise Violation(f"normalised weights change under likelihood rescaling by c={c!r}", sig={"kind": "shift-weights"}, detail=detail)
    if abs((float(lz_s) - float(lz)) - beta * c) > tol_s:
        raise Violation(f"log-evidence shifts by {float(lz_s) - float(lz)!r} instead of beta*c={beta * c!r}",
                        sig={"kind": "shift-logz"}, detail=detail)
    # META 4: the SAME object after its history was replaced (import / load) by a different history of the same shape must
    # answer for the new history, exactly like a fresh object does
    import os
    from vlib.runs import quiet, scratch_dir

    lib_call(sm.update_from_dict, sm_s.to_dict(), what="update_from_dict")
    lw_r, lz_r = lib_call(sm.compute_logw_and_logz, beta, what="compute_logw_and_logz(after update_from_dict)")
    if np.max(np.abs(np.asarray(lw_r, dtype=float) - np.asarray(lw_s, dtype=float))) > 1e-12 * max(1.0, M) or abs(float(lz_r) - float(lz_s)) > 1e-12 * max(1.0, M + abs(c)):
        raise Violation("after update_from_dict() replaced the history by another one of the same shape, the weights/evidence are not those "
                        "of the new history (a fresh object gives different values)", sig={"kind": "stale-after-import"}, detail=detail)
    if case["seed"] % 4 == 0:
        with scratch_dir() as td, quiet():
            pth = os.path.join(td, "state.pkl")
            lib_call(sm_p.save_state, pth, what="save_state")
            lib_call(sm.load_state, pth, what="load_state")
        lw_r, lz_r = lib_call(sm.compute_logw_and_logz, beta, what="compute_logw_and_logz(after load_state)")
        if np.max(np.abs(np.asarray(lw_r, dtype=float) - np.asarray(lw_p, dtype=float))) > 1e-12 * max(1.0, M) or abs(float(lz_r) - float(lz_p)) > 1e-12 * max(1.0, M):
            raise Violation("after load_state() replaced the history, the weights/evidence are not those of the loaded history",
                            sig={"kind": "stale-after-import"}, detail=detail)
    nt = T >= 2 and len(set(case["sizes"][:T])) > 1 and len(set(betas)) >= 2
    classes = ["family:" + case["family"], "T=%d" % T]
    if beta in (0.0, 1.0):
        classes.append("beta-endpoint")
    if len(set(betas)) < T:
        classes.append("repeated-beta")
    if list(betas) != sorted(betas):
        classes.append("unsorted-betas")
    return {"nontrivial": nt, "classes": classes,
            "sample": {"T": T, "sizes": case["sizes"], "betas": betas, "beta": beta, "family": case["family"], "M": M}}


CHECKS = [Check("mis_formula", cases, execute, n={"quick": 4000, "thorough": 80000},
                shards={"quick": 16, "thorough": 16})]
