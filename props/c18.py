"""C18 - invalid configurations are rejected up front; valid ones always run.

invalid: one documented constraint violated at a time on top of a generated valid base configuration -> the constructor must raise
         and the instrumented likelihood must not have been evaluated.
valid  : rows of a verified t-wise covering array over the 13 constructor/run options named in the property (+ dimension);
         each row must run to completion and satisfy the run postconditions.
"""
import numpy as np
from hypothesis import strategies as st

from vlib.core import Violation, lib_call
from vlib.hypo import Check
from vlib.lattice import RowCheck
from vlib.refs import ess_from_logw, mis_logw
from vlib.runs import make_sampler, quiet, scratch_dir
from vlib.targets import PermutingPool, Target, simple_target_spec

PID = "C18"
LEVEL = "exploration"
RULE = (
    "valid: seeded greedy covering array, pairwise (quick) / 3-wise (thorough), coverage of all t-tuples verified and reported, over kernel(2) x "
    "resampler(2) x clustering(2) x normalize(2) x cluster_every{1,2,3} x n_max_clusters{None,1,2,4} x split_threshold{0.3,1,3} x metric{ESS,vv0.3,vv2} x "
    "n_steps/n_max_steps{None,(1,2),(3,10)} x evaluation{vector,scalar,blobs} x boundaries{none,periodic,reflective,both} x pool{None,pool-like,1,2} x "
    "save_every{None,1,3} x d{1,2,3} x ess_ratio{2,1,3.5}, N=32 (ESS target >= 32). invalid: Hypothesis draws a valid base and one offending value for one documented "
    "constraint. Non-trivial: valid row with >=3 non-default factors; invalid case = any (each violates exactly one constraint). valid_full: random "
    "complete valid configurations from vlib.cfggen (every option drawn in every case, incl. two blobs, odd particle counts, executor pools, a real "
    "2-worker pool, extra likelihood arguments, save_every) - reaches the higher-order combinations a pairwise array does not guarantee."
)
ASSUMPTIONS = [
    "values the documentation does not constrain (NaN ess_ratio, cluster_every=0, numpy integer types, bool for int) are not asserted either way",
    "an invalid configuration may be rejected with any exception type, as long as it is raised by the constructor before any likelihood call",
]

INVALID = {
    "n_dim": [0, -1, -7, 2.0, 2.5, "2", None],
    "n_particles": [0, -1, -32, 10.5, 32.0, "32"],
    "ess_ratio": [0, 0.0, -1.0, -0.5, "2"],
    "volume_variation": [0, 0.0, -0.3, "0.3"],
    "sample": ["pcn", "TPCN", "", "hmc", None],
    "resample": ["multinomial", "systematic", "", "SYST", None],
    "vectorize+blobs": [True],
    "periodic": "indices",
    "reflective": "indices",
    "overlap": "indices",
}


@st.composite
def invalid_cases(draw):
    which = draw(st.sampled_from(sorted(INVALID)))
    d = draw(st.integers(1, 3))
    # a random VALID value for every other option: an invalid value must be rejected whatever it is combined with
    base = {"sample": draw(st.sampled_from(["tpcn", "rwm"])), "resample": draw(st.sampled_from(["mult", "syst"])),
            "clustering": draw(st.booleans()), "ess_ratio": draw(st.sampled_from([1.0, 2.0, 0.5])), "n_particles": draw(st.sampled_from([8, 32])),
            "volume_variation": draw(st.sampled_from([None, None, 0.3, 2.0])), "normalize": draw(st.booleans()),
            "cluster_every": draw(st.sampled_from([1, 3])), "split_threshold": draw(st.sampled_from([1.0, 0.3])),
            "n_max_clusters": draw(st.sampled_from([None, 2])), "n_steps": draw(st.sampled_from([None, 2])),
            "n_max_steps": draw(st.sampled_from([None, 7])), "pool": draw(st.sampled_from([None, 1, 2])),
            "random_state": draw(st.sampled_from([None, 7]))}
    bsel = draw(st.sampled_from(["none", "periodic", "reflective"]))
    if bsel != "none":
        base[bsel] = [draw(st.integers(0, d - 1))]
    v = INVALID[which]
    if which in ("periodic", "reflective"):
        bad = draw(st.sampled_from([[-1], [d], [d + 3], [0.5], ["0"], [0, d], [-2, 0]]))
        val = bad
    elif which == "overlap":
        k = draw(st.integers(0, d - 1))
        val = k
    else:
        val = draw(st.sampled_from(v))
    return {"which": which, "value": val, "d": d, "base": base, "mode": draw(st.sampled_from(["vector", "scalar"])),
            "tseed": draw(st.integers(0, 10**6))}


def exec_invalid(case):
    from tempest import Sampler

    d = case["d"]
    mode = "scalar" if case["which"] == "vectorize+blobs" else case["mode"]
    t = Target.from_spec(simple_target_spec(np.random.default_rng(case["tseed"]), d, mode))
    kw = t.sampler_kwargs()
    kw.update(case["base"])
    w, v = case["which"], case["value"]
    if w == "vectorize+blobs":
        kw["vectorize"], kw["blobs_dtype"] = True, "float"
    elif w == "overlap":
        kw["periodic"], kw["reflective"] = sorted(set(kw.get("periodic") or []) | {v}), sorted(set(kw.get("reflective") or []) | {v})
    elif w in ("periodic", "reflective"):
        kw[w] = list(v)
    else:
        kw[w] = v
    try:
        with quiet():
            s = Sampler(**kw)
    except Exception as e:  # noqa - rejected at construction: what the property asks for
        if t.n_points:
            raise Violation(f"{w}={v!r} was rejected, but only after {t.n_points} likelihood evaluations", sig={"kind": "rejected-late"})
        return {"nontrivial": True, "classes": ["constraint:" + w, "exc:" + type(e).__name__]}
    raise Violation(f"Sampler(...) accepted the invalid configuration {w}={v!r} (n_dim={d})", sig={"kind": "invalid-accepted", "which": w})


class ValidRows(RowCheck):
    name = "valid"
    FACTORS = {
        "kernel": ["tpcn", "rwm"], "resample": ["mult", "syst"], "clustering": [True, False], "normalize": [True, False],
        "cluster_every": [1, 2, 3], "n_max_clusters": [None, 1, 2, 4], "split_threshold": [1.0, 0.3, 3.0],
        "metric": ["ess", "vv0.3", "vv2"], "steps": [None, "1,2", "3,10"], "mode": ["scalar", "vector", "blobs"],
        "boundary": ["none", "periodic", "reflective", "both"], "pool": [None, "permuting", 1, 2], "save_every": [None, 1, 3],
        "d": [1, 2, 3], "ess_ratio": [2.0, 1.0, 3.5],
    }
    DEFAULTS = {"ess_ratio": 2.0, "clustering": True, "normalize": True, "cluster_every": 1, "n_max_clusters": None, "split_threshold": 1.0, "metric": "ess",
                "steps": None, "mode": "scalar", "boundary": "none", "pool": None, "save_every": None, "kernel": "tpcn", "resample": "mult", "d": 1}
    REPEATS = {"quick": 2, "thorough": 1}

    def constraint(self, row):
        return not (row["boundary"] == "both" and row["d"] < 2)

    def execute(self, case):
        row, seed = case["row"], int(case["seed"])
        if not self.constraint(row):
            return {"nontrivial": False, "classes": ["invalid-row-skipped"]}
        d, N, n_total = row["d"], 32, 64
        t = Target.from_spec(simple_target_spec(np.random.default_rng(seed), d, row["mode"]))
        cfg = dict(sample=row["kernel"], resample=row["resample"], clustering=row["clustering"], normalize=row["normalize"],
                   cluster_every=row["cluster_every"], n_max_clusters=row["n_max_clusters"], split_threshold=row["split_threshold"],
                   n_particles=N, pool=row["pool"], ess_ratio=row.get("ess_ratio", 2.0))
        if row["metric"] != "ess":
            cfg["volume_variation"] = float(row["metric"][2:])
        if row["steps"]:
            a, b = row["steps"].split(",")
            cfg["n_steps"], cfg["n_max_steps"] = int(a), int(b)
        if row["boundary"] in ("periodic", "both"):
            cfg["periodic"] = [0]
        if row["boundary"] in ("reflective", "both"):
            cfg["reflective"] = [d - 1]
        np.random.seed(seed)
        label = ", ".join(f"{k}={row[k]!r}" for k in row if row[k] != self.DEFAULTS.get(k))
        with scratch_dir() as od, quiet():
            s = lib_call(make_sampler, t, cfg, od, what=f"Sampler({label})")
            lib_call(s.run, n_total=n_total, progress=False, save_every=row["save_every"], what=f"Sampler({label}).run()")
        st_ = s.state
        T = st_.get_history_length()
        betas = [float(b) for b in st_.get_history("beta")]
        L = [np.asarray(st_.get_history("logl", index=i), dtype=float) for i in range(T)]
        lw, lz, _ = mis_logw(L, betas, [float(z) for z in st_.get_history("logz")], 1.0)
        ess = ess_from_logw(lw)
        if abs(1 - betas[-1]) >= 1e-4 or ess < n_total * (1 - 1e-9) or abs(float(s.evidence()[0]) - float(lz)) > 1e-9 * max(1, abs(float(lz))):
            raise Violation(f"Sampler({label}).run() returned without the run postconditions (beta {betas[-1]!r}, ESS {ess:.2f} vs n_total {n_total}, "
                            f"evidence {s.evidence()[0]!r} vs reference {float(lz)!r})", sig={"kind": "postconditions"})
        nd = sum(1 for k in row if k in self.DEFAULTS and row[k] != self.DEFAULTS[k])
        return {"nontrivial": nd >= 3, "classes": [f"non-default-factors={min(nd, 9)}"],
                "sample": {"row": row, "seed": seed, "iterations": T, "ess": ess}}


def valid_full_cases():
    from vlib import cfggen

    return st.tuples(cfggen.full_config(pools=(None, None, "permuting", "executor", 1, 2)), st.sampled_from([None, None, 1, 3])).map(
        lambda t: dict(t[0], save_every=t[1]))


def exec_valid_full(case):
    """random complete valid configurations (vlib.cfggen): a covering array guarantees all pairs, random complete configurations reach
    the higher-order combinations (any given 3-factor combination is met with probability > 0.99 in the quick tier)"""
    from vlib import cfggen

    np.random.seed(case["rs_value"] % 2**31)
    label = ", ".join(f"{k}={v!r}" for k, v in cfggen.summary(case).items())
    n_total = 2 * case["n_particles"]
    with scratch_dir() as od, quiet():
        (s, t) = lib_call(cfggen.build, case, None, od, what=f"Sampler({label})")
        lib_call(s.run, n_total=n_total, progress=False, save_every=case["save_every"], what=f"Sampler({label}).run(save_every={case['save_every']})")
    pobj = getattr(getattr(s, "_core", None), "config", None)
    st_ = s.state
    T = st_.get_history_length()
    betas = [float(b) for b in st_.get_history("beta")]
    L = [np.asarray(st_.get_history("logl", index=i), dtype=float) for i in range(T)]
    lw, lz, _ = mis_logw(L, betas, [float(z) for z in st_.get_history("logz")], 1.0)
    ess = ess_from_logw(lw)
    if abs(1 - betas[-1]) >= 1e-4 or ess < n_total * (1 - 1e-9) or abs(float(s.evidence()[0]) - float(lz)) > 1e-9 * max(1, abs(float(lz))):
        raise Violation(f"Sampler({label}).run() returned without the run postconditions (beta {betas[-1]!r}, ESS {ess:.2f} vs n_total {n_total}, "
                        f"evidence {s.evidence()[0]!r} vs reference {float(lz)!r})", sig={"kind": "postconditions"})
    if case["rs_value"] % 2 == 0:
        # the object stays usable after a completed run: one more public call (whatever resources run() set up and tore down)
        with quiet():
            lib_call(s.sample, what=f"Sampler({label}).run() then sample()")
    return {"nontrivial": True, "classes": ["mode:" + case["mode"], "pool:%s" % case["pool"], "save_every:%s" % case["save_every"], "metric:" + case["metric"]],
            "sample": dict(cfggen.summary(case), save_every=case["save_every"], iterations=T)}


CHECKS = [
    Check("valid_full", valid_full_cases, exec_valid_full, n={"quick": 64, "thorough": 1200}, shards={"quick": 16, "thorough": 16},
          shrink={"quick": False, "thorough": True}),
    Check("invalid", invalid_cases, exec_invalid, n={"quick": 640, "thorough": 6000}, shards={"quick": 8, "thorough": 16}),
    ValidRows(),
]
