"""C12 - run() postconditions and the posterior()/evidence() contract."""
import itertools

import numpy as np

from vlib.core import Violation, lib_call
from vlib.lattice import RowCheck
from vlib.refs import ess_from_logw, mis_logw
from vlib.runs import core_of, make_sampler, quiet
from vlib.targets import Target, simple_target_spec
from props.c07 import row_to_cfg

PID = "C12"
LEVEL = "exploration"
RULE = (
    "Rows of a seeded covering array (pairwise quick / 3-wise thorough) over kernel x resampler x clustering x evaluation mode x metric x "
    "n_total in {1,4,8}xN x d in {1,2,3} x zero-likelihood region; each row = one Sampler.run on an instrumented target, then all 2^4 "
    "combinations of posterior(resample, trim_importance_weights, return_blobs, return_logw) with seed-drawn ess_trim in (0.5,0.999) and "
    "bins_trim in {1,2,10,100,1000}. Non-trivial = trimming removed >=1 sample and the run has >=3 batches. distinct = (row, seed)."
    ' The *_full check draws a complete configuration with vlib.cfggen: every constructor option gets a generated value in every case (d, evaluation mode incl. one/two blobs, zero-likelihood region, narrow target, kernel, resampler, clustering, normalize, cluster_every, n_max_clusters, split_threshold, ess_ratio, ESS/volume-variation metric, n_particles incl. odd, n_steps/n_max_steps, periodic/reflective indices, pool kind, extra likelihood args/kwargs, random_state int/NumPy-int/None); the oracle is the same.'
)
ASSUMPTIONS = [
    "reference MIS weights/evidence/ESS recomputed from the stored history in long double (vlib.refs); tolerances 1e-9",
    "row alignment of log-weights uses the fact that the MIS log-weight is a function of the sample's log-likelihood alone",
]


class Contract(RowCheck):
    name = "contract"
    FACTORS = {
        "kernel": ["tpcn", "rwm"], "resample": ["mult", "syst"], "clustering": [False, True],
        "mode": ["vector", "scalar", "blobs"], "metric": ["ess", "vv0.3", "vv2"], "ntot": [1, 4, 8], "d": [1, 2, 3],
        "zero": [False, True], "boundary": ["none", "periodic", "reflective"],
    }
    DEFAULTS = {"boundary": "none", "clustering": False, "metric": "ess", "zero": False, "mode": "vector", "kernel": "tpcn", "resample": "mult", "d": 1, "ntot": 4}
    REPEATS = {"quick": 3, "thorough": 3}

    def execute(self, case):
        row, seed = case["row"], int(case["seed"])
        d, N = row["d"], 24
        rng = np.random.default_rng(seed)
        t = Target.from_spec(simple_target_spec(rng, d, row["mode"], zero=row["zero"]))
        np.random.seed(seed % 2**31)
        s = make_sampler(t, row_to_cfg(row, d, seed))
        st = core_of(s).state
        n_total = row["ntot"] * N
        with quiet():
            lib_call(s.run, n_total=n_total, progress=False, what="Sampler.run")
        T = st.get_history_length()
        beta = float(st.get_current("beta"))
        if not abs(1.0 - beta) < 1e-4:
            raise Violation(f"run() returned with beta={beta!r}", sig={"kind": "beta-not-one"})
        L = [np.asarray(st.get_history("logl", index=i), dtype=float) for i in range(T)]
        betas = [float(b) for b in st.get_history("beta")]
        logzs = [float(z) for z in st.get_history("logz")]
        lw, lz, M = mis_logw(L, betas, logzs, 1.0, normalize=True)
        ess = ess_from_logw(lw)
        if ess < n_total * (1 - 1e-9):
            raise Violation(f"run(n_total={n_total}) returned with posterior ESS {ess:.3f} < n_total", sig={"kind": "ess-below-ntotal"})
        ev = lib_call(s.evidence, what="Sampler.evidence")
        if not (isinstance(ev, tuple) and len(ev) == 2):
            raise Violation("evidence() did not return (logz, err)", sig={"kind": "evidence-arity"})
        if abs(float(ev[0]) - float(lz)) > 1e-9 * max(1.0, abs(float(lz))):
            raise Violation(f"evidence()={float(ev[0])!r} but the MIS evidence at beta=1 recomputed from the history is {float(lz)!r}",
                            sig={"kind": "evidence-mismatch"})
        blobs_on = row["mode"] == "blobs"
        lw64 = np.asarray(lw, dtype=float)
        Lall = np.concatenate(L)
        order = np.argsort(Lall, kind="stable")
        Ls, lws = Lall[order], lw64[order]

        def g(ell):  # reference normalised log-weight as a function of logl
            k = np.searchsorted(Ls, ell)
            k = np.clip(k, 0, len(Ls) - 1)
            return np.where(Ls[k] == ell, lws[k], np.nan)

        prng = np.random.default_rng(seed + 17)
        ess_trim = float(prng.uniform(0.5, 0.999))
        bins = int(prng.choice([1, 2, 10, 100, 1000]))
        removed_any = False
        for rs, tr, rb, rl in itertools.product([False, True], repeat=4):
            what = f"posterior(resample={rs}, trim_importance_weights={tr}, return_blobs={rb}, return_logw={rl}, ess_trim={ess_trim:.3f}, bins_trim={bins})"
            np.random.seed((seed + 5) % 2**31)
            o = lib_call(s.posterior, resample=rs, trim_importance_weights=tr, return_blobs=rb, return_logw=rl, ess_trim=ess_trim,
                         bins_trim=bins, what=what)
            arity = 3 + (1 if (rb and blobs_on) else 0) + (1 if rl else 0)
            if not isinstance(o, tuple) or len(o) != arity:
                raise Violation(f"{what}: returned {len(o) if isinstance(o, tuple) else type(o)} values, documented {arity}",
                                sig={"kind": "arity"})
            x, w, logl = np.asarray(o[0]), np.asarray(o[1], dtype=float), np.asarray(o[2], dtype=float)
            n = len(x)
            lens = [len(a) for a in o]
            if len(set(lens)) != 1:
                raise Violation(f"{what}: returned arrays have different lengths {lens}", sig={"kind": "unequal-lengths"})
            if n < len(Lall):
                removed_any = True
            if np.any(w < 0) or abs(float(w.sum()) - 1.0) > 1e-9 or not np.all(np.isfinite(w)):
                raise Violation(f"{what}: weights not a probability vector (sum {w.sum()!r}, min {w.min()!r})", sig={"kind": "weights"})
            if rs and np.max(np.abs(w - 1.0 / n)) > 1e-12:
                raise Violation(f"{what}: weights not uniform after resampling", sig={"kind": "not-uniform"})
            for i in range(n):
                if not (t.ll_row(x[i]) == logl[i]):
                    raise Violation(f"{what}: row {i}: logl does not belong to x", sig={"kind": "row-logl"})
            if rb and blobs_on:
                b = np.asarray(o[3], dtype=float).reshape(n, -1)[:, 0]
                for i in range(n):
                    if not (t.blob_row(x[i]) == b[i]):
                        raise Violation(f"{what}: row {i}: blob does not belong to x", sig={"kind": "row-blob"})
            if rl:
                lwr = np.asarray(o[-1], dtype=float)
                ref = g(logl)
                if np.any(np.isnan(ref)):
                    raise Violation(f"{what}: a returned log-likelihood is not in the history", sig={"kind": "row-logl"})
                if np.max(np.abs(lwr - ref)) > 1e-9 * max(1.0, M):
                    k = int(np.argmax(np.abs(lwr - ref)))
                    raise Violation(f"{what}: row {k}: returned log-weight {lwr[k]!r} is not the MIS log-weight {ref[k]!r} of that sample",
                                    sig={"kind": "row-logw"})
                if not rs:
                    wr = np.exp(lwr - lwr.max())
                    wr /= wr.sum()
                    if np.max(np.abs(wr - w)) > 1e-9:
                        raise Violation(f"{what}: weights are not proportional to exp(logw) row by row", sig={"kind": "w-vs-logw"})
        classes = [f"{k}={row[k]}" for k in ("kernel", "clustering", "mode", "metric", "ntot")]
        if removed_any:
            classes.append("trim-removed")
        return {"nontrivial": removed_any and T >= 3, "classes": classes,
                "sample": {"row": row, "seed": seed, "batches": T, "ess": ess, "n_total": n_total, "ess_trim": ess_trim, "bins": bins}}


def check_after_run(case, s, t, n_total, where):
    """postconditions of one run() call and the posterior()/evidence() contract, on sampler s"""
    from vlib import cfggen

    st = core_of(s).state
    T = st.get_history_length()
    beta = float(st.get_current("beta"))
    if not abs(1.0 - beta) < 1e-4:
        raise Violation(f"{where}: run() returned with beta={beta!r}", sig={"kind": "beta-not-one"})
    L = [np.asarray(st.get_history("logl", index=i), dtype=float) for i in range(T)]
    lw, lz, M = mis_logw(L, [float(b) for b in st.get_history("beta")], [float(z) for z in st.get_history("logz")], 1.0)
    ess = ess_from_logw(lw)
    if ess < n_total * (1 - 1e-9):
        raise Violation(f"{where}: run(n_total={n_total}) returned with posterior ESS {ess:.3f} < n_total", sig={"kind": "ess-below-ntotal"})
    ev = lib_call(s.evidence, what="Sampler.evidence")
    if abs(float(ev[0]) - float(lz)) > 1e-9 * max(1.0, abs(float(lz))):
        raise Violation(f"{where}: evidence()={float(ev[0])!r} but the MIS evidence at beta=1 recomputed from the history is {float(lz)!r}",
                        sig={"kind": "evidence-mismatch"})
    check_contract(case, s, t, where)
    return T


def check_contract(case, s, t, where):
    """the posterior() contract alone (it is owed after ANY history change, e.g. one more sample() or a load_state(), not only after run())"""
    from vlib import cfggen

    from vlib.targets import BLOB_MODES

    nblob = BLOB_MODES.get(case["mode"], 0)
    for rs, tr, rb, rl in itertools.product([False, True], repeat=4):
        what = f"{where}: posterior(resample={rs}, trim_importance_weights={tr}, return_blobs={rb}, return_logw={rl})"
        o = lib_call(s.posterior, resample=rs, trim_importance_weights=tr, return_blobs=rb, return_logw=rl, what=what)
        arity = 3 + (1 if (rb and nblob) else 0) + (1 if rl else 0)
        if not isinstance(o, tuple) or len(o) != arity or len({len(a) for a in o}) != 1:
            raise Violation(f"{what}: arity/lengths {[len(a) for a in o] if isinstance(o, tuple) else type(o)}, documented arity {arity}",
                            sig={"kind": "arity-or-lengths"})
        x, w, logl = np.asarray(o[0]), np.asarray(o[1], dtype=float), np.asarray(o[2], dtype=float)
        if np.any(w < 0) or abs(float(w.sum()) - 1.0) > 1e-9 or (rs and np.max(np.abs(w - 1.0 / len(w))) > 1e-12):
            raise Violation(f"{what}: weights not a probability vector / not uniform after resampling", sig={"kind": "weights"})
        for i in range(len(x)):
            if not (cfggen.ll_of(case, t, x[i]) == logl[i]):
                raise Violation(f"{what}: row {i}: logl does not belong to x", sig={"kind": "row-logl"})
            if rb and nblob and not t.blob_match(x[i], o[3][i]):
                raise Violation(f"{what}: row {i}: blob does not belong to x", sig={"kind": "row-blob"})
        if tr and not rs and not rb and not rl:
            # the trimmed output is the top of the untrimmed weights, renormalised, and keeps the requested share of the ESS - for the
            # parameters of THIS call (an earlier call with other parameters on the same history must not matter)
            wu = np.sort(np.asarray(lib_call(s.posterior, trim_importance_weights=False, what="posterior(trim_importance_weights=False)")[1], dtype=float))[::-1]
            for et in (0.5, 0.99, 0.9):
                ot = lib_call(s.posterior, ess_trim=et, what=f"posterior(ess_trim={et})")
                wt = np.sort(np.asarray(ot[1], dtype=float))[::-1]
                k = len(wt)
                top = wu[:k] / np.sum(wu[:k])
                ess_u, ess_t = 1.0 / np.sum(wu ** 2), 1.0 / np.sum(wt ** 2)
                from tempest.tools import trim_weights

                k_ref = len(lib_call(trim_weights, np.arange(len(wu)), wu.copy(), ess=et, bins=1000, what="trim_weights")[0])
                if k != k_ref:
                    raise Violation(f"{where}: posterior(ess_trim={et}) after calls with other trimming parameters keeps {k} of {len(wu)} samples; "
                                    f"trim_weights(ess={et}) applied to the untrimmed weights keeps {k_ref}", sig={"kind": "trim-parameters-not-honoured"})
                if k > len(wu) or np.max(np.abs(wt - top)) > 1e-9 * max(top.max(), 1e-300) or ess_t / ess_u < et - 1e-9:
                    raise Violation(f"{where}: posterior(ess_trim={et}) after calls with other trimming parameters: kept {k} of {len(wu)} samples, "
                                    f"ESS kept/ESS all = {ess_t / ess_u:.4f} (requested >= {et}); the kept weights are "
                                    f"{'not ' if np.max(np.abs(wt - top)) > 1e-9 * max(top.max(), 1e-300) else ''}the renormalised top of the untrimmed ones",
                                    sig={"kind": "trim-parameters-not-honoured"})
        if rl:
            lw_out = np.asarray(o[-1], dtype=float)
            if not rs and (np.any(~np.isfinite(lw_out)) or np.max(np.abs(np.exp(lw_out - np.max(lw_out)) / np.sum(np.exp(lw_out - np.max(lw_out))) - w)) > 1e-9):
                raise Violation(f"{what}: the returned log-weights are not the logarithms of the returned weights (up to normalisation)",
                                sig={"kind": "logw-vs-weights"})


def exec_full(case):
    """the same contract over complete random configurations (vlib.cfggen); one case in three is a sequence of run() calls:
    a first request with checkpoints, then a fresh sampler resumed from one of them with a different (usually larger) request,
    then the same object asked again for more - every run() call owes the postconditions of ITS request"""
    import glob
    import os

    from vlib import cfggen
    from vlib.runs import scratch_dir

    np.random.seed(case["rs_value"] % 2**31)
    n_total = int(case["n_particles"] * [1, 3, 6][case["tseed"] % 3])
    sequence = case["pool_seed"] % 3 == 0 and case["pool"] in (None, 1)
    classes = ["mode:" + case["mode"], "metric:" + case["metric"], "pool:%s" % case["pool"], "extra:" + case["ll_extra"]]
    if not sequence:
        s, t = cfggen.build(case)
        with quiet():
            lib_call(s.run, n_total=n_total, progress=False, what="Sampler.run")
        T = check_after_run(case, s, t, n_total, "fresh run")
        if case["pool_seed"] % 2:
            # the history changes outside run(): one more iteration through the public sample(); the contract still holds
            with quiet():
                lib_call(s.sample, what="Sampler.sample [after run()]")
            check_contract(case, s, t, "run() then one more sample()")
            classes = classes + ["run-then-sample"]
        elif case["pool_seed"] % 4 == 2:
            # a second plain run() on the object that has already run (a larger request): whatever it does to the schedule, what
            # posterior() returns afterwards still has to honour the contract
            with quiet():
                lib_call(s.run, n_total=2 * n_total, progress=False, what="Sampler.run [second call on the same object]")
            check_contract(case, s, t, "run() and a second run() on the same object")
            classes = classes + ["run-then-run"]
        return {"nontrivial": T >= 3, "classes": classes, "sample": cfggen.summary(case)}
    with scratch_dir() as od:
        s, t = cfggen.build(case, output_dir=od)
        with quiet():
            lib_call(s.run, n_total=n_total, progress=False, save_every=1 + case["pool_seed"] % 2, what="Sampler.run(save_every=...)")
        T = check_after_run(case, s, t, n_total, "first run (with checkpoints)")
        files = sorted(glob.glob(os.path.join(od, "*.state")))
        if not files:
            raise Violation("run(save_every=...) wrote no checkpoint", sig={"kind": "no-checkpoint"})
        f = files[(case["pool_seed"] // 3) % len(files)]
        n2 = int(n_total * [2, 3, 0.5, 1][(case["pool_seed"] // 7) % 4]) or 1
        s2, t2 = cfggen.build(case, output_dir=od)
        with quiet():
            lib_call(s2.run, n_total=n2, progress=False, resume_state_path=f, what="Sampler.run(resume_state_path=...)")
        check_after_run(case, s2, t2, n2, f"fresh sampler resumed from {os.path.basename(f)} (first request {n_total}, this request {n2})")
        n3 = 2 * max(n2, n_total)
        with quiet():
            lib_call(s2.run, n_total=n3, progress=False, resume_state_path=files[-1], what="Sampler.run(resume_state_path=final)")
        check_after_run(case, s2, t2, n3, f"same sampler resumed again from {os.path.basename(files[-1])} with a larger request {n3}")
    return {"nontrivial": T >= 3, "classes": classes + ["sequence:run-resume-resume"], "sample": cfggen.summary(case)}


def _full_cases():
    from vlib import cfggen

    return cfggen.full_config()


from vlib.hypo import Check  # noqa: E402

CHECKS = [Contract(), Check("contract_full", _full_cases, exec_full, n={"quick": 64, "thorough": 1200}, shards={"quick": 16, "thorough": 16},
                            shrink={"quick": False, "thorough": True})]
