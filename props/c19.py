"""C19 - Student-t proposal fit is well-posed and equivariant.

INV   : finite location inside the data's bounding box, symmetric PD scale matrix, nu in (0, inf].
META  : equivariance under per-coordinate scaling, translation and permutation of coordinates.
RECOV : large multivariate-t samples give back (nu, scale matrix) within generous asymptotic bounds.
FALLBK: ModeStatistics.from_particles/from_global never expose a non-finite dof (fit result scripted to nan/+-inf).
"""
import math

import numpy as np
from hypothesis import strategies as st

from vlib.core import HarnessError, Violation, lib_call
from vlib.hypo import Check

PID = "C19"
LEVEL = "exploration"
RULE = (
    "Hypothesis draws data-set specs: d in 1..8, n in 4d..2000, law in {gaussian, multivariate-t nu in {1,2,3,5,10,30}, exponential, "
    "5% contamination x50, uniform} through a random linear map of condition <=100, then per-coordinate scalings 10^U(-6,6), translations "
    "up to 100 sd (and far ones: 1e4..1e7 sd), a coordinate permutation, and C / Fortran / transposed-view memory layouts. recovery: n=20000 multivariate-t samples, d in 1..3, nu in {2,3,5,10}. fallback: weighted "
    "pools with 1..3 labels and the fit's nu replaced by nan/+inf/-inf. Non-trivial = heavy-tailed or contaminated law, or scaling spread >= 1e6."
)
ASSUMPTIONS = [
    "equivariance tolerance 1e-9 + 1e3*eps*max|y|/sd (the second term is the rounding already present in the transformed inputs), 1/nu compared absolutely",
    "recovery bounds |nu_hat-nu|/nu < 0.25 and scale matrix within 10% (relative Frobenius) at n = 20000",
    "positive definiteness is tested on the correlation-normalised scale matrix (scale-free)",
]
EPS = float(np.finfo(float).eps)


def gen_data(spec):
    rng = np.random.default_rng(spec["seed"])
    d, n, law = spec["d"], spec["n"], spec["law"]
    if law == "gaussian":
        z = rng.normal(size=(n, d))
    elif law.startswith("t"):
        nu = float(law[1:])
        z = rng.normal(size=(n, d)) / np.sqrt(rng.chisquare(nu, size=(n, 1)) / nu)
    elif law == "exponential":
        z = rng.exponential(size=(n, d))
    elif law == "contaminated":
        z = rng.normal(size=(n, d))
        k = max(1, n // 20)
        z[:k] *= 50.0
    else:
        z = rng.random((n, d))
    Q, _ = np.linalg.qr(rng.normal(size=(d, d)))
    P, _ = np.linalg.qr(rng.normal(size=(d, d)))
    sv = np.linspace(1.0, math.sqrt(spec["cond"]), d)
    A = (Q * sv) @ P.T
    return z @ A.T, A


@st.composite
def data_spec(draw):
    d = draw(st.integers(1, 8))
    return {"d": d, "n": draw(st.one_of(st.integers(4 * d, 8 * d), st.integers(4 * d, 2000))),
            "law": draw(st.sampled_from(["gaussian", "t1", "t2", "t3", "t5", "t10", "t30", "exponential", "contaminated", "uniform"])),
            "cond": draw(st.floats(1.0, 100.0)), "seed": draw(st.integers(0, 2**31 - 1)),
            "logscale": [draw(st.one_of(st.floats(-6.0, 6.0), st.just(0.0))) for _ in range(d)],
            "shift_sd": [draw(st.one_of(st.floats(-100.0, 100.0), st.just(0.0), st.sampled_from([1e4, -1e5, 1e6, -1e7]))) for _ in range(d)],
            "perm_seed": draw(st.integers(0, 10**6))}


def check_fit(x, mu, Sig, nu, what):
    d = x.shape[1]
    mu, Sig = np.asarray(mu, dtype=float), np.asarray(Sig, dtype=float)
    if mu.shape != (d,) or Sig.shape != (d, d):
        raise Violation(f"{what}: shapes mu{mu.shape} Sigma{Sig.shape} for d={d}", sig={"kind": "shape"})
    if not np.all(np.isfinite(mu)) or not np.all(np.isfinite(Sig)):
        raise Violation(f"{what}: non-finite location or scale matrix", sig={"kind": "non-finite"})
    lo, hi = x.min(0), x.max(0)
    span = np.maximum(hi - lo, 1e-300)
    if np.any(mu < lo - 1e-12 * span) or np.any(mu > hi + 1e-12 * span):
        raise Violation(f"{what}: location {mu.tolist()} outside the data's bounding box [{lo.tolist()}, {hi.tolist()}]",
                        sig={"kind": "location-outside-box"})
    sd = np.sqrt(np.abs(np.diag(Sig)))
    if np.any(np.diag(Sig) <= 0):
        raise Violation(f"{what}: non-positive diagonal in the scale matrix", sig={"kind": "not-pd"})
    C = Sig / np.outer(sd, sd)
    if np.max(np.abs(C - C.T)) > 1e-9:
        raise Violation(f"{what}: scale matrix not symmetric (rel. asymmetry {np.max(np.abs(C - C.T)):.3g})", sig={"kind": "asymmetric"})
    lam = float(np.linalg.eigvalsh((C + C.T) / 2)[0])
    if not lam > 0:
        raise Violation(f"{what}: scale matrix not positive definite (lambda_min of its correlation form = {lam:.3g})", sig={"kind": "not-pd"})
    nu = float(nu)
    if math.isnan(nu) or not nu > 0:
        raise Violation(f"{what}: degrees of freedom {nu!r} not in (0, inf]", sig={"kind": "nu-range"})
    return sd


def exec_fit(case):
    from tempest.student import fit_mvstud

    x, _ = gen_data(case)
    d = case["d"]
    # the caller's own array, in one of several memory layouts, handed over twice: the answer for the same argument must be the same
    # and must describe the array the caller holds
    layout = ["C", "F", "T"][case["seed"] % 3]
    xa = np.asfortranarray(x.copy()) if layout == "F" else (np.ascontiguousarray(x.T.copy()).T if layout == "T" else x.copy())
    mu1, S1, nu1 = lib_call(fit_mvstud, xa, what="fit_mvstud")
    mu1b, S1b, nu1b = lib_call(fit_mvstud, xa, what="fit_mvstud (same array again)")
    if not (np.allclose(mu1, mu1b, rtol=0, atol=1e-12 * (1 + np.max(np.abs(mu1)))) and np.allclose(S1, S1b, rtol=1e-12, atol=0)):
        raise Violation(f"fitting the same array twice gives different results (location {np.asarray(mu1).tolist()} then {np.asarray(mu1b).tolist()}): "
                        f"the fit changes its argument (memory layout {layout})", sig={"kind": "not-a-function-of-its-argument"})
    check_fit(np.asarray(xa), mu1, S1, nu1, "fit_mvstud(x) against the array the caller holds")
    sd1 = check_fit(x, mu1, S1, nu1, "fit_mvstud(x)")
    # transformed copy: y = D x + t, coordinates permuted
    D = 10.0 ** np.array([float(v) for v in case["logscale"]])
    t = np.array([float(v) for v in case["shift_sd"]]) * sd1 * D
    perm = np.random.default_rng(case["perm_seed"]).permutation(d)
    y = (x * D + t)[:, perm]
    ylay = ["F", "T", "C"][case["seed"] % 3]  # the transformed copy arrives in another memory layout than the original
    ya = np.asfortranarray(y.copy()) if ylay == "F" else (np.ascontiguousarray(y.T.copy()).T if ylay == "T" else y.copy())
    mu2, S2, nu2 = lib_call(fit_mvstud, ya, what="fit_mvstud(Dx+t)")
    sd2 = check_fit(y, mu2, S2, nu2, "fit_mvstud(Dx+t)")
    mu_e = (np.asarray(mu1) * D + t)[perm]
    S_e = (np.asarray(S1) * np.outer(D, D))[np.ix_(perm, perm)]
    sd_e = np.sqrt(np.diag(S_e))
    tol = 1e-9 + 1e3 * EPS * float(np.max(np.abs(y) / sd_e))
    e_mu = float(np.max(np.abs(np.asarray(mu2) - mu_e) / sd_e))
    e_S = float(np.max(np.abs(np.asarray(S2) - S_e) / np.outer(sd_e, sd_e)))
    e_nu = abs(1.0 / float(nu2) - 1.0 / float(nu1))
    if e_mu > tol or e_S > tol or e_nu > 1e-9 + tol:
        raise Violation(
            f"fit not equivariant under scaling/translation/permutation: location err {e_mu:.3g}, scale err {e_S:.3g}, "
            f"1/nu err {e_nu:.3g} (tol {tol:.3g}); nu {float(nu1)!r} vs {float(nu2)!r}", sig={"kind": "equivariance"})
    spread = max(case["logscale"]) - min(case["logscale"]) if d > 1 else abs(case["logscale"][0])
    heavy = case["law"] in ("t1", "t2", "t3", "t5", "contaminated")
    classes = ["law:" + case["law"], "d=%d" % d, "nu=inf" if math.isinf(float(nu1)) else "nu-finite"]
    if spread >= 6:
        classes.append("scale-spread>=1e6")
    return {"nontrivial": heavy or spread >= 6, "classes": classes,
            "sample": {"d": d, "n": case["n"], "law": case["law"], "nu_hat": float(nu1), "scale_spread_decades": spread}}


@st.composite
def recov_spec(draw):
    d = draw(st.integers(1, 3))
    return {"d": d, "n": 20000, "law": draw(st.sampled_from(["t2", "t3", "t5", "t10"])), "cond": draw(st.floats(1.0, 10.0)),
            "seed": draw(st.integers(0, 2**31 - 1))}


def exec_recovery(case):
    from tempest.student import fit_mvstud

    x, A = gen_data(case)
    nu = float(case["law"][1:])
    mu, S, nh = lib_call(fit_mvstud, x.copy(), what="fit_mvstud")
    check_fit(x, mu, S, nh, "fit_mvstud(large t sample)")
    nh = float(nh)
    if math.isinf(nh):
        raise Violation(f"degrees of freedom not recovered: nu_hat = inf for n=20000 samples of a multivariate t with nu={nu:g} "
                        f"(the fit returns its starting values)", sig={"kind": "nu-infinite-on-t-data"})
    if abs(nh - nu) / nu >= 0.25:
        raise Violation(f"degrees of freedom not recovered: nu_hat={nh!r}, generating nu={nu:g}", sig={"kind": "nu-wrong"})
    S_true = A @ A.T
    rel = float(np.linalg.norm(np.asarray(S) - S_true) / np.linalg.norm(S_true))
    if rel >= 0.10:
        raise Violation(f"scale matrix not recovered: relative Frobenius error {rel:.3g}", sig={"kind": "scale-wrong"})
    return {"nontrivial": True, "classes": ["law:" + case["law"], "d=%d" % case["d"]]}


@st.composite
def fallback_spec(draw):
    d = draw(st.integers(1, 4))
    return {"d": d, "K": draw(st.integers(1, 3)), "per": draw(st.integers(4 * d + 4, 80)), "seed": draw(st.integers(0, 2**31 - 1)),
            "bad": draw(st.sampled_from(["nan", "inf", "-inf", "real"])), "api": draw(st.sampled_from(["particles", "global", "particles+n_modes"])),
            "empty_label": draw(st.integers(0, 3)),
            "fallback": draw(st.sampled_from([1.0, 5.0, 1e6]))}


def exec_fallback(case):
    import tempest.modes as modes
    from tempest.modes import ModeStatistics

    if not hasattr(modes, "fit_mvstud"):
        raise HarnessError("tempest.modes no longer references fit_mvstud: cannot script the fit result")
    rng = np.random.default_rng(case["seed"])
    d, K, per = case["d"], case["K"], case["per"]
    u = np.concatenate([rng.normal(0.2 + 0.3 * k, 0.03, size=(per, d)) for k in range(K)])
    labels = np.repeat(np.arange(K), per)
    w = rng.random(len(u)) + 0.5
    real = modes.fit_mvstud
    bad = {"nan": float("nan"), "inf": float("inf"), "-inf": float("-inf")}.get(case["bad"])

    def scripted(data, *a, **k):
        m, S, nu = real(data, *a, **k)
        return m, S, (nu if bad is None else bad)

    np.random.seed(case["seed"] % 2**31)
    modes.fit_mvstud = scripted
    try:
        if case["api"] == "particles+n_modes":
            import inspect

            if "n_modes" not in inspect.signature(ModeStatistics.from_particles).parameters:
                return {"nontrivial": False, "classes": ["api:n_modes-not-available"]}
            # as the trainer calls it: one mode per fitted label, one of which has no particle at all
            e = case["empty_label"] % (K + 1)
            lab2 = np.where(labels >= e, labels + 1, labels)
            ms = lib_call(ModeStatistics.from_particles, u, w, lab2, dof_fallback=case["fallback"], n_modes=K + 1, what="from_particles(n_modes)")
        elif case["api"] == "particles":
            ms = lib_call(ModeStatistics.from_particles, u, w, labels, dof_fallback=case["fallback"], what="from_particles")
        else:
            ms = lib_call(ModeStatistics.from_global, u, w, dof_fallback=case["fallback"], what="from_global")
    finally:
        modes.fit_mvstud = real
    dof = np.asarray(ms.degrees_of_freedom, dtype=float)
    if not np.all(np.isfinite(dof)) or np.any(dof <= 0):
        raise Violation(f"ModeStatistics.from_{case['api']} exposes degrees of freedom {dof.tolist()} when the fit returned "
                        f"{case['bad']}", sig={"kind": "dof-not-finite"})
    if bad is not None and not np.all(dof == case["fallback"]):
        raise Violation(f"non-finite dof replaced by {dof.tolist()}, configured fallback is {case['fallback']}", sig={"kind": "dof-fallback-value"})
    return {"nontrivial": bad is not None, "classes": ["bad:" + case["bad"], "api:" + case["api"]]}


@st.composite
def modes_spec(draw):
    d = draw(st.integers(1, 4))
    return {"d": d, "K": draw(st.integers(1, 3)), "per": draw(st.integers(4 * d + 4, 60)), "seed": draw(st.integers(0, 2**31 - 1)),
            "api": draw(st.sampled_from(["particles", "global", "ctor"])),
            "log_s": [draw(st.one_of(st.floats(-6.0, 6.0), st.just(0.0))) for _ in range(d)],
            "shift": [draw(st.one_of(st.floats(-1e3, 1e3), st.just(0.0))) for _ in range(d)],
            "perm_seed": draw(st.integers(0, 10**6))}


def _unit(C):
    sd = np.sqrt(np.diag(C))
    return C / np.outer(sd, sd), sd


def exec_modes(case):
    """what reaches the kernel: ModeStatistics must describe ONE scale matrix per mode - its Cholesky factor and its inverse belong to the
    covariance it exposes - and the whole object is equivariant under per-coordinate scaling, translation and permutation of coordinates"""
    from tempest.modes import ModeStatistics

    rng = np.random.default_rng(case["seed"])
    d, K, per = case["d"], case["K"], case["per"]
    u = np.concatenate([rng.normal(0.2 + 0.3 * k, 0.03 * (1 + k), size=(per, d)) * (1 + np.arange(d)) for k in range(K)])
    labels = np.repeat(np.arange(K), per)
    w = rng.random(len(u)) + 0.5

    def build(x):
        np.random.seed(case["seed"] % 2**31)
        if case["api"] == "particles":
            return lib_call(ModeStatistics.from_particles, x, w, labels, what="ModeStatistics.from_particles")
        if case["api"] == "global":
            return lib_call(ModeStatistics.from_global, x, w, what="ModeStatistics.from_global")
        mk = [x[labels == k] for k in range(K)]
        return lib_call(ModeStatistics, np.array([m.mean(0) for m in mk]), np.array([np.atleast_2d(np.cov(m.T)) for m in mk]),
                        np.full(K, 5.0), what="ModeStatistics(...)")

    def consistent(ms, what):
        for k in range(ms.K):
            C = np.asarray(ms.covariances[k], dtype=float)
            Cu, sd = _unit(C)
            L = np.asarray(ms.chol_covariances[k], dtype=float) / sd[:, None]
            P = np.asarray(ms.inv_covariances[k], dtype=float) * np.outer(sd, sd)
            cond = float(np.linalg.cond(Cu))
            if not np.allclose(L @ L.T, Cu, rtol=0, atol=1e-9 * cond):
                raise Violation(f"{what}: mode {k}: the Cholesky factor handed to the kernel is not a factor of the covariance it exposes "
                                f"(max deviation {np.max(np.abs(L @ L.T - Cu)):.3g} in correlation units)", sig={"kind": "chol-not-of-covariance"})
            if not np.allclose(P @ Cu, np.eye(len(Cu)), rtol=0, atol=1e-8 * cond):
                raise Violation(f"{what}: mode {k}: the inverse handed to the kernel is not the inverse of the covariance it exposes "
                                f"(max deviation {np.max(np.abs(P @ Cu - np.eye(len(Cu)))):.3g})", sig={"kind": "inverse-not-of-covariance"})

    ms = build(u)
    consistent(ms, f"ModeStatistics via {case['api']}")
    sc = 10.0 ** np.array(case["log_s"], dtype=float)
    sh = np.array(case["shift"], dtype=float)
    perm = np.random.default_rng(case["perm_seed"]).permutation(d)
    u2 = (u * sc + sh)[:, perm]
    ms2 = build(u2)
    consistent(ms2, f"ModeStatistics via {case['api']} (transformed data)")
    loss = float(np.max(np.abs(sh) / (np.std(u * sc, axis=0) + 1e-300)))  # digits the translation costs the inputs
    tol = 1e-9 + 1e-13 * loss
    for k in range(ms.K):
        m_exp = (np.asarray(ms.means[k]) * sc + sh)[perm]
        C_exp = (np.asarray(ms.covariances[k]) * np.outer(sc, sc))[np.ix_(perm, perm)]
        sd = np.sqrt(np.diag(C_exp))
        em = float(np.max(np.abs(np.asarray(ms2.means[k]) - m_exp) / sd))
        ec = float(np.max(np.abs(np.asarray(ms2.covariances[k]) - C_exp) / np.outer(sd, sd)))
        ei = float(np.max(np.abs(np.asarray(ms2.inv_covariances[k]) * np.outer(sd, sd) - (np.asarray(ms.inv_covariances[k]) / np.outer(sc, sc))[np.ix_(perm, perm)] * np.outer(sd, sd))))
        cond = float(np.linalg.cond(_unit(C_exp)[0]))
        if em > tol * 10 or ec > tol * 10 or ei > tol * 100 * cond * cond:
            raise Violation(f"ModeStatistics via {case['api']} is not equivariant under per-coordinate scaling {sc.tolist()}, translation and "
                            f"permutation: mode {k}: mean err {em:.3g}, covariance err {ec:.3g}, inverse err {ei:.3g} (standardised units)",
                            sig={"kind": "not-equivariant"})
        if float(ms.degrees_of_freedom[k]) != float(ms2.degrees_of_freedom[k]):
            raise Violation("degrees of freedom change under an affine change of coordinates", sig={"kind": "not-equivariant"})
    spread = float(np.max(case["log_s"]) - np.min(case["log_s"])) if d > 1 else 0.0
    return {"nontrivial": spread > 2, "classes": ["api:" + case["api"], "scale-spread>6" if spread > 6 else "scale-spread<=6", "K=%d" % K]}


CHECKS = [
    Check("modes", modes_spec, exec_modes, n={"quick": 800, "thorough": 12000}, shards={"quick": 16, "thorough": 16}),
    Check("fit_invariants", data_spec, exec_fit, n={"quick": 4800, "thorough": 60000}, shards={"quick": 16, "thorough": 16}),
    Check("recovery", recov_spec, exec_recovery, n={"quick": 16, "thorough": 200}, shards={"quick": 8, "thorough": 16},
          shrink={"quick": False, "thorough": False}),
    Check("fallback", fallback_spec, exec_fallback, n={"quick": 400, "thorough": 5000}, shards={"quick": 8, "thorough": 16}),
]
