"""C15 - weighted mixture and hierarchical clustering models satisfy their invariants."""
import math

import numpy as np
from hypothesis import strategies as st

from vlib.core import Violation, lib_call
from vlib.hypo import Check
from vlib.runs import quiet

PID = "C15"
LEVEL = "exploration"
RULE = (
    "Hypothesis draws data-set specs: d in 1..6, n in 2d..1000, geometry in {separated, overlapping, nested, duplicated (rounded / repeated rows), "
    "one constant coordinate, tiny or huge common scale, far-from-origin}, weights in {uniform, U(0,1), exp N(0,sigma<=30), half zero}, "
    "covariance type in {full, diag}, normalize on/off, threshold modifiers {0.3,1,3}, caps; query points inside / far outside / duplicates. "
    "replication: integer weights 1..4 vs rows repeated consecutively, identical EM schedule (tol=-inf, max_iter=25). "
    "Non-trivial = K>=2 fitted, or max(w)/median(w) > 1e3, or duplicated rows. distinct = case hash."
)
ASSUMPTIONS = [
    "component means are required inside the data's bounding box inflated by 1e-6*max|X| (the implementation divides by sum(r)+1e-10, a stated regulariser)",
    "'tied' and 'spherical' covariance types are outside the property (acknowledged broken by the suite, never used by the sampler)",
    "replication relation compared at 1e-8 relative to the data scale",
]


def gen_points(spec):
    rng = np.random.default_rng(spec["seed"])
    d, n, g = spec["d"], spec["n"], spec["geometry"]
    if g == "separated":
        k = int(rng.integers(2, 4))
        c = rng.integers(0, k, n)
        X = rng.normal(0, 0.03, (n, d)) + (c[:, None] + 1) / (k + 1)
    elif g == "overlapping":
        c = rng.integers(0, 2, n)
        X = rng.normal(0, 0.1, (n, d)) + 0.45 + 0.1 * c[:, None]
    elif g == "nested":
        c = rng.random(n) < 0.3
        X = rng.normal(0.5, 0.2, (n, d))
        X[c] = rng.normal(0.5, 0.01, (int(c.sum()), d))
    elif g == "duplicated":
        base = rng.random((max(2, n // 5), d))
        X = base[rng.integers(0, len(base), n)]
        if spec["seed"] % 2:
            X = np.round(rng.random((n, d)), 1)
    elif g == "all-equal":
        X = np.repeat(rng.random((1, d)), n, axis=0)  # every row is the same point
        if spec["seed"] % 2:
            X[: max(1, n // 4)] = rng.random((max(1, n // 4), d))  # ... except a block (which 'one-point' weights switch off)
    elif g == "constant-coord":
        X = rng.random((n, d))
        X[:, rng.integers(0, d)] = 0.37
    elif g == "scaled":
        X = rng.normal(0.0, 1.0, (n, d)) * 10.0 ** spec["logscale"]
    else:  # far
        X = rng.normal(0.0, 1.0, (n, d)) * 1e-2 + 1e3 * (1 + rng.random(d))
    return X, rng


def gen_weights(spec, n, rng):
    f = spec["wfam"]
    if f == "uniform":
        return np.ones(n)
    if f == "u01":
        return rng.random(n) + 1e-6
    if f == "lognormal":
        lw = rng.normal(0, spec["sigma"], n)
        return np.exp(lw - lw.max())
    if f == "one-point":
        # weight only on the tail of the data set (for the 'all-equal' geometry: on copies of one single point)
        w = np.zeros(n)
        w[max(1, n // 4):] = rng.random(n - max(1, n // 4)) + 1e-6
        if w.sum() == 0:
            w[-1] = 1.0
        return w
    w = rng.random(n) + 1e-6
    w[rng.random(n) < 0.5] = 0.0
    if w.sum() == 0:
        w[0] = 1.0
    return w


@st.composite
def base_spec(draw, max_n=1000):
    d = draw(st.integers(1, 6))
    return {"d": d, "n": draw(st.one_of(st.integers(2 * d, 6 * d + 4), st.integers(2 * d, 200), st.integers(2 * d, max_n))),
            "geometry": draw(st.sampled_from(["separated", "overlapping", "nested", "duplicated", "constant-coord", "scaled", "far", "all-equal"])),
            "logscale": draw(st.sampled_from([-8.0, -3.0, 0.0, 3.0, 6.0])),
            "wfam": draw(st.sampled_from(["uniform", "u01", "lognormal", "halfzero", "one-point"])),
            "sigma": draw(st.sampled_from([1.0, 5.0, 30.0])), "seed": draw(st.integers(0, 2**31 - 1))}


def density_regime(X, sw):
    """The implementation's regularisers are absolute constants sized for unit-scale data (reg_covar=1e-6 added before every
    density evaluation, 1e-10 floors in the E-step and the lower bound). Finding K6's regime = data spread over more than 20
    units in some coordinate; everything the sampler passes (unit cube, or normalised) is in the 'normal' regime."""
    return "spread>20" if float(np.max(X.max(0) - X.min(0))) > 20.0 else "normal"


def with_regime(fn):
    def run(case):
        try:
            return fn(case)
        except Violation as v:
            X, rng = gen_points(case)
            sw = gen_weights(case, len(X), rng) if "wfam" in case else np.ones(len(X))
            v.sig["regime"] = density_regime(X, sw)
            raise
    return run


# ------------------------------------------------------------------ GaussianMixture


@st.composite
def gmm_cases(draw):
    s = draw(base_spec(max_n=400))
    s.update({"K": draw(st.integers(1, 4)), "cov": draw(st.sampled_from(["full", "diag"])),
              "rs": draw(st.one_of(st.none(), st.integers(0, 10**6))), "n_init": draw(st.sampled_from([1, 1, 2]))})
    return s


def check_gmm(g, X, K, cov_type, what):
    d = X.shape[1]
    w, mu, C = np.asarray(g.weights_, dtype=float), np.asarray(g.means_, dtype=float), np.asarray(g.covariances_, dtype=float)
    if w.shape != (K,) or mu.shape != (K, d):
        raise Violation(f"{what}: shapes weights{w.shape} means{mu.shape}", sig={"kind": "shape"})
    if not np.all(np.isfinite(w)) or np.any(w < 0) or abs(w.sum() - 1) > 1e-9:
        raise Violation(f"{what}: component weights {w.tolist()} not a probability vector", sig={"kind": "weights"})
    if not np.all(np.isfinite(C)):
        raise Violation(f"{what}: non-finite covariance", sig={"kind": "cov-nonfinite"})
    for k in range(K):
        Ck = np.diag(C[k]) if cov_type == "diag" else C[k]
        nrm = max(float(np.max(np.abs(Ck))), 1e-300)
        if np.max(np.abs(Ck - Ck.T)) > 1e-9 * nrm:
            raise Violation(f"{what}: covariance {k} not symmetric", sig={"kind": "cov-asymmetric"})
        lam = float(np.linalg.eigvalsh((Ck + Ck.T) / 2)[0])
        if lam < -1e-9 * nrm:
            raise Violation(f"{what}: covariance {k} not PSD (lambda_min={lam:.3g}, norm={nrm:.3g})", sig={"kind": "cov-not-psd"})
    lo, hi = X.min(0), X.max(0)
    infl = 1e-6 * float(np.max(np.abs(X))) + 1e-300
    for k in range(K):
        if w[k] >= 1e-3:
            if not np.all(np.isfinite(mu[k])) or np.any(mu[k] < lo - infl) or np.any(mu[k] > hi + infl):
                raise Violation(f"{what}: mean of component {k} (weight {w[k]:.3g}) = {mu[k].tolist()} outside the data's bounding box "
                                f"[{lo.tolist()}, {hi.tolist()}]", sig={"kind": "mean-outside-box"})


def exotic_dtype(X, seed):
    """the data rounded to a narrower floating dtype (values exactly representable there, scale unchanged - an integer dtype would
    need a rescaling that moves unit-scale data into the regime of finding K6)"""
    return X.astype(np.float32), "float32"


def alt_repr(X, sw, seed):
    """the same data in another legitimate representation"""
    k = seed % 3
    if k == 0:
        return X.tolist(), sw.tolist(), "nested lists"
    if k == 1:
        return np.asfortranarray(X.copy()), sw.copy(), "Fortran-ordered array"
    return X.copy(), sw.copy(), "C-ordered array"


def exec_gmm(case):
    from tempest.cluster import GaussianMixture

    X, rng = gen_points(case)
    sw = gen_weights(case, len(X), rng)
    K = min(case["K"], len(X))
    np.random.seed(case["seed"] % 2**31)
    g = GaussianMixture(n_components=K, covariance_type=case["cov"], n_init=case["n_init"], random_state=case["rs"])
    lib_call(g.fit, X.copy(), sample_weight=sw.copy(), what="GaussianMixture.fit")
    check_gmm(g, X, K, case["cov"], "GaussianMixture.fit")
    # the same model object fitted to other data first must give the same answer as a fresh object (no state carried between fits)
    g2 = GaussianMixture(n_components=K, covariance_type=case["cov"], n_init=case["n_init"], random_state=case["rs"])
    d2 = [X.shape[1], max(1, X.shape[1] - 1), X.shape[1] + 1][case["seed"] % 3]
    X2 = np.random.default_rng(case["seed"] + 1).random((max(2 * K, 6), d2)) * 3.0 - 1.0
    lib_call(g2.fit, X2, what="GaussianMixture.fit(other data)")
    np.random.seed(case["seed"] % 2**31)
    # ... and the input representation must not matter either: nested lists / Fortran-ordered arrays in place of C-ordered arrays
    Xr, swr, how = alt_repr(X, sw, case["seed"])
    lib_call(g2.fit, Xr, sample_weight=swr, what=f"GaussianMixture.fit(refit, {how})")
    if how.startswith("Fortran"):
        # another memory order changes the order of the floating-point sums inside the EM iteration (measured: 3e-9 relative on
        # the covariances after 100 iterations with skewed weights): the numbers are not comparable bit for bit, the invariants are
        check_gmm(g2, X, K, case["cov"], "GaussianMixture.fit(Fortran-ordered array)")
    for name in (() if how.startswith("Fortran") else ("weights_", "means_", "covariances_")):
        a, b_ = np.asarray(getattr(g, name), dtype=float), np.asarray(getattr(g2, name), dtype=float)
        if a.shape != b_.shape or not np.allclose(a, b_, rtol=1e-9, atol=1e-12, equal_nan=True):
            raise Violation(f"GaussianMixture: a model object that was fitted to other data before gives a different {name} for the same "
                            f"data, weights and seed than a fresh object (state carried between fits)", sig={"kind": "state-carried-over"})
    if case["seed"] % 4 == 0 and case["geometry"] != "scaled":
        # input of a narrower dtype: the fit must treat it as the numbers it holds (no arithmetic in the input's own dtype)
        Xe, how_e = exotic_dtype(X, case["seed"] // 4)
        ge = GaussianMixture(n_components=K, covariance_type=case["cov"], n_init=case["n_init"], random_state=case["rs"])
        np.random.seed(case["seed"] % 2**31)
        lib_call(ge.fit, Xe, sample_weight=sw.copy(), what=f"GaussianMixture.fit({how_e} input)")
        check_gmm(ge, Xe.astype(np.float64), K, case["cov"], f"GaussianMixture.fit({how_e} input)")
    lab = np.asarray(lib_call(g.predict, X.copy(), what="GaussianMixture.predict"))
    if lab.shape != (len(X),) or lab.min() < 0 or lab.max() >= K:
        raise Violation(f"GaussianMixture.predict labels outside [0,{K})", sig={"kind": "predict-range"})
    b = float(lib_call(g.bic, X.copy(), what="GaussianMixture.bic"))
    if math.isnan(b):
        raise Violation("GaussianMixture.bic is NaN", sig={"kind": "bic-nan"})
    pos = sw[sw > 0]
    skew = float(sw.max() / np.median(pos)) > 1e3
    dup = len(np.unique(X, axis=0)) < len(X)
    return {"nontrivial": K >= 2 or skew or dup,
            "classes": ["geom:" + case["geometry"], "w:" + case["wfam"], "cov:" + case["cov"], "K=%d" % K]}


# ------------------------------------------------------------------ replication relation


@st.composite
def repl_cases(draw):
    d = draw(st.integers(1, 4))
    return {"d": d, "n": draw(st.integers(max(4, 2 * d), 60)), "K": draw(st.integers(1, 3)), "cov": draw(st.sampled_from(["full", "diag"])),
            "geometry": draw(st.sampled_from(["separated", "overlapping", "nested"])), "logscale": 0.0,
            "seed": draw(st.integers(0, 2**31 - 1)), "rs": draw(st.integers(0, 10**6)),
            "counts_seed": draw(st.integers(0, 10**6))}


def exec_repl(case):
    from tempest.cluster import GaussianMixture

    X, _ = gen_points(case)
    c = np.random.default_rng(case["counts_seed"]).integers(1, 5, len(X))
    Xr = np.repeat(X, c, axis=0)
    K = case["K"]
    kw = dict(n_components=K, covariance_type=case["cov"], n_init=1, tol=-np.inf, max_iter=25, random_state=case["rs"])
    ga = GaussianMixture(**kw)
    gb = GaussianMixture(**kw)
    lib_call(ga.fit, X.copy(), sample_weight=c.astype(float), what="GaussianMixture.fit(weighted)")
    lib_call(gb.fit, Xr.copy(), what="GaussianMixture.fit(replicated)")
    scale = float(np.max(np.abs(X))) + 1e-300
    e = max(float(np.max(np.abs(np.asarray(ga.weights_) - np.asarray(gb.weights_)))),
            float(np.max(np.abs(np.asarray(ga.means_) - np.asarray(gb.means_)))) / scale,
            float(np.max(np.abs(np.asarray(ga.covariances_) - np.asarray(gb.covariances_)))) / scale**2)
    if not e <= 1e-8:
        raise Violation(f"integer sample weights are not equivalent to replicating points: parameter difference {e:.3g}",
                        sig={"kind": "replication"})
    return {"nontrivial": K >= 2, "classes": ["cov:" + case["cov"], "K=%d" % K]}


# ------------------------------------------------------------------ HierarchicalGaussianMixture


@st.composite
def hgm_cases(draw):
    s = draw(base_spec(max_n=600))
    s.update({"cov": draw(st.sampled_from(["full", "full", "diag"])), "normalize": draw(st.booleans()),
              "thr": draw(st.sampled_from([0.3, 1.0, 3.0])), "max_iterations": draw(st.sampled_from([1000, 0, 1, 3])),
              "min_points": draw(st.sampled_from([None, None, 4, 12])), "qseed": draw(st.integers(0, 10**6))})
    return s


def exec_hgm(case):
    from tempest.cluster import HierarchicalGaussianMixture

    X, rng = gen_points(case)
    n, d = X.shape
    sw = gen_weights(case, n, rng)
    mp = None if case["min_points"] is None else case["min_points"] * 1
    np.random.seed(case["seed"] % 2**31)
    h = HierarchicalGaussianMixture(n_init=1, max_iterations=case["max_iterations"], min_points=mp, threshold_modifier=case["thr"],
                                    covariance_type=case["cov"], verbose=False, normalize=case["normalize"])
    lib_call(h.fit, X.copy(), sw.copy(), what="HierarchicalGaussianMixture.fit")
    # no state carried between fits of one model object
    h2 = HierarchicalGaussianMixture(n_init=1, max_iterations=case["max_iterations"], min_points=mp, threshold_modifier=case["thr"],
                                     covariance_type=case["cov"], verbose=False, normalize=case["normalize"])
    d2 = [d, max(1, d - 1), d + 1][case["seed"] % 3]  # the earlier data may have another dimension (defaults derived from it must not stick)
    X2 = np.random.default_rng(case["seed"] + 1).random((max(4 * d2 + 2, 10), d2)) * 5.0 - 2.0
    lib_call(h2.fit, X2, what="HierarchicalGaussianMixture.fit(other data)")
    np.random.seed(case["seed"] % 2**31)
    Xr, swr, how = alt_repr(X, sw, case["seed"] if case["seed"] % 3 != 1 else 2)  # (labels are compared exactly: no Fortran order here)
    h2.verbose = case["seed"] % 5 == 0  # the progress messages are printed from inside the split loop
    with quiet():
        lib_call(h2.fit, Xr, swr, what=f"HierarchicalGaussianMixture.fit(refit, {how})")
    if int(h2.n_clusters_) != int(h.n_clusters_) or not np.array_equal(np.asarray(h2.labels_), np.asarray(h.labels_)):
        raise Violation("HierarchicalGaussianMixture: a model object that was fitted to other data before labels the same data differently "
                        "than a fresh object (state carried between fits)", sig={"kind": "state-carried-over"})
    K = int(h.n_clusters_)
    lab = np.asarray(h.labels_)
    if K < 1 or lab.shape != (n,) or lab.min() < 0 or lab.max() >= K:
        raise Violation(f"training labels not all in [0,K={K}): min {lab.min() if lab.size else None}, max {lab.max() if lab.size else None}",
                        sig={"kind": "labels-range"})
    if len(h.cluster_centers_) != K or len(h.cluster_covariances_) != K or len(np.asarray(h.cluster_weights_)) != K:
        raise Violation("per-cluster attributes do not have K entries", sig={"kind": "attr-length"})
    cap = case["max_iterations"] + 1
    if K > cap:
        raise Violation(f"K={K} exceeds the configured cap {cap} (max_iterations={case['max_iterations']})", sig={"kind": "cap"})
    minp = mp if mp is not None else 2 * d
    sizes = np.bincount(lab, minlength=K)
    if K > 1 and sizes.min() < minp:
        raise Violation(f"accepted a split leaving a cluster of {sizes.min()} < min_points={minp} members (sizes {sizes.tolist()})",
                        sig={"kind": "min-points"})
    # queries: inside, far outside, duplicates of training points, a single point
    qr = np.random.default_rng(case["qseed"])
    span = X.max(0) - X.min(0) + 1e-12
    Q = np.concatenate([X[qr.integers(0, n, 5)], X.min(0) + qr.random((5, d)) * span,
                        X.mean(0) + (qr.random((5, d)) - 0.5) * span * 10.0 ** qr.uniform(1, 6), X[:1]])
    far = np.zeros(len(Q), dtype=bool)
    far[10:15] = True
    for name, q, isfar in (("many", Q, far), ("single", Q[:1], far[:1])):
        pl = np.asarray(lib_call(h.predict, q.copy(), what="HierarchicalGaussianMixture.predict"))
        if pl.shape != (len(q),) or pl.min() < 0 or pl.max() >= K or not np.issubdtype(pl.dtype, np.integer):
            raise Violation(f"predict({name}) returned labels outside [0,{K}): {pl.tolist()}", sig={"kind": "predict-range"})
        pp = np.asarray(lib_call(h.predict_proba, q.copy(), what="HierarchicalGaussianMixture.predict_proba"), dtype=float)
        # far-away queries have log-densities of magnitude r^2 whose own rounding (eps*r^2) exceeds 1: only finiteness,
        # sign and range are asserted there; rows for queries inside the data's box must sum to one
        bad_sum = np.abs(pp.sum(1) - 1) > 1e-9 if pp.ndim == 2 else np.array([True])
        if pp.shape != (len(q), K) or not np.all(np.isfinite(pp)) or np.any(pp < 0) or np.any(pp > 1 + 1e-9) or np.any(bad_sum & ~isfar):
            why = ("shape %s" % (pp.shape,) if pp.shape != (len(q), K) else "non-finite" if not np.all(np.isfinite(pp))
                   else "negative or >1" if np.any(pp < 0) or np.any(pp > 1 + 1e-9) else "row sums %r" % pp.sum(1)[np.argmax(np.abs(pp.sum(1) - 1))])
            raise Violation(f"predict_proba({name}) rows are not finite probability vectors over K={K} clusters ({why})",
                            sig={"kind": "proba"})
    pos = sw[sw > 0]
    skew = float(sw.max() / np.median(pos)) > 1e3
    dup = len(np.unique(X, axis=0)) < n
    return {"nontrivial": K >= 2 or skew or dup,
            "classes": ["geom:" + case["geometry"], "w:" + case["wfam"], "cov:" + case["cov"], "normalize" if case["normalize"] else "raw",
                        "K=%d" % min(K, 5), "cap=%d" % cap if cap < 100 else "cap=none"],
            "sample": {"d": d, "n": n, "geometry": case["geometry"], "w": case["wfam"], "K": K, "sizes": sizes.tolist()[:8]}}


CHECKS = [
    Check("gmm", gmm_cases, with_regime(exec_gmm), n={"quick": 2000, "thorough": 24000}, shards={"quick": 16, "thorough": 16}),
    Check("replication", repl_cases, with_regime(exec_repl), n={"quick": 1200, "thorough": 12000}, shards={"quick": 16, "thorough": 16}),
    Check("hierarchical", hgm_cases, with_regime(exec_hgm), n={"quick": 2000, "thorough": 24000}, shards={"quick": 16, "thorough": 16},
          shrink={"quick": False, "thorough": True}),
]
