"""C11 - zero-likelihood prior regions are excluded and counted exactly once.

(a) no stored log-likelihood is -inf; (b) every log-evidence recorded during the prior-sampling phase lies in the hull of
the batch fractions log(finite/total) observed so far (any estimator that counts the excluded mass once is some mean of
them; one that stacks the correction leaves the hull at the second warm-up iteration); (c) the final evidence is unbiased
for log f + log-integral over the support (small seeded ensembles, two-stage t-test).
"""
import math

import numpy as np
from hypothesis import strategies as st
from scipy import stats

from vlib.core import Recorder, Violation, lib_call
from vlib.hypo import Check
from vlib.runs import core_of, make_sampler, quiet, wrap_method
from vlib.targets import Target

PID = "C11"
LEVEL = "exploration"
RULE = (
    "Hypothesis draws (supported fraction f in [0.05,1] realised as a half-space x_0 >= z, Gaussian or flat likelihood on the support, "
    "ess_ratio in {1,2,4,8} (1..8 warm-up iterations), metric mode {ESS, volume-variation 0.1/0.3/2}, resampler, N in {16,32,64,128}, d in {1,2}, kernel, evaluation mode, seed); the instrumented "
    "likelihood counts finite/total per warm-up batch. Non-trivial = >=2 warm-up iterations with at least one -inf draw each. "
    "ensemble: R independently seeded runs per cell, error of the final log-evidence against the analytic value."
    ' The *_full check draws a complete configuration with vlib.cfggen: every constructor option gets a generated value in every case (d, evaluation mode incl. one/two blobs, zero-likelihood region, narrow target, kernel, resampler, clustering, normalize, cluster_every, n_max_clusters, split_threshold, ess_ratio, ESS/volume-variation metric, n_particles incl. odd, n_steps/n_max_steps, periodic/reflective indices, pool kind, extra likelihood args/kwargs, random_state int/NumPy-int/None); the oracle is the same.'
)
ASSUMPTIONS = [
    "a warm-up batch with no finite draw at all is outside the claim (log 0) and is counted as skipped",
    "ensemble tolerance |mean error| <= t*(alpha)*s/sqrt(R) + 1.5*s^2 (Jensen allowance), alpha 1e-6 then 1e-4 on a fresh retest with 2R runs",
]


def make_target(case):
    d = case["d"]
    uz = 1.0 - float(case["f"])
    a, b = [-1.0] * d, [3.0] * d
    centre = [a[0] + b[0] * float(case["uc"])] + [0.4] * (d - 1)
    width = [1e6 if case["flat"] else b[0] * float(case["w"])] + [0.5] * (d - 1)
    zb = a[0] + b[0] * uz if uz > 0 else None
    return Target(d, ["affine"] * d, a, b, centre, width, mode=case["mode"], zero_below=zb, zero_coord=0)


def true_logz(t):
    lz = 0.0
    for j in range(t.d):
        lo, hi = t.a[j], t.a[j] + t.b[j]
        if j == t.zero_coord and t.zero_below is not None:
            lo = max(lo, t.zero_below)
        c, w = t.centre[j], t.width[j]
        m = w * math.sqrt(2 * math.pi) * (stats.norm.cdf((hi - c) / w) - stats.norm.cdf((lo - c) / w))
        lz += math.log(m / t.b[j])
    return lz


@st.composite
def cases(draw):
    return {"f": draw(st.one_of(st.floats(0.05, 1.0), st.sampled_from([0.3, 0.5, 1.0]))), "uc": draw(st.floats(0.75, 0.95)),
            "w": draw(st.floats(0.02, 0.2)), "flat": draw(st.booleans()), "ess_ratio": draw(st.sampled_from([1.0, 2.0, 4.0, 8.0])),
            "N": draw(st.sampled_from([16, 32, 64, 128])), "d": draw(st.sampled_from([1, 2])), "kernel": draw(st.sampled_from(["tpcn", "rwm"])),
            "mode": draw(st.sampled_from(["vector", "scalar", "blobs"])), "clustering": draw(st.booleans()),
            "vv": draw(st.sampled_from([None, None, 0.3, 2.0, 0.1])), "resample": draw(st.sampled_from(["mult", "syst"])),
            "seed": draw(st.integers(0, 2**31 - 2))}


class NoFiniteDraw(BaseException):  # control flow of the harness, must pass through lib_call
    pass


def run_case(case, n_total_mult=2, built=None, on_no_finite="report", run_kwargs=None, warm=None):
    if built is None:
        t = make_target(case)
        np.random.seed(case["seed"])
        s = make_sampler(t, dict(sample=case["kernel"], clustering=case["clustering"], n_particles=case["N"], ess_ratio=case["ess_ratio"],
                                 volume_variation=case.get("vv"), resample=case.get("resample", "mult")))
    else:
        s, t = built
    core = core_of(s)
    st_ = core.state
    warm = [] if warm is None else warm  # [n_total, n_finite, logz recorded at commit] per prior-sampling batch
    mark = {}

    def before(*a, **k):
        mark["p"], mark["f"] = t.n_points, t.n_finite
        mark["beta"] = st_.get_current("beta")

    def after(r, *a, **k):
        cur = st_.get_current()
        if mark["beta"] == 0.0:
            warm.append([t.n_points - mark["p"], t.n_finite - mark["f"], None])
            if warm[-1][1] == 0:
                if on_no_finite == "skip":
                    raise NoFiniteDraw()  # ensembles: such a replica says nothing about the bias of the others
                # a whole prior batch without support: the library has nothing to copy from, keeps the -inf particles and records
                # log(0) as the batch evidence (finding K7) - the first clause of the property fails, the others are moot
                raise Violation(f"a prior-sampling batch of {warm[-1][0]} draws contained no point of finite likelihood: the -inf particles are "
                                "kept as the current particles and the recorded log-evidence becomes log(0) = -inf (every later weight is NaN)",
                                sig={"kind": "neginf-stored", "regime": "no-finite-draw-batch"})
        if cur["logl"] is not None and np.any(np.isneginf(np.asarray(cur["logl"], dtype=float))):
            raise Violation("a particle with log-likelihood -inf is stored in the current state after mutation", sig={"kind": "neginf-stored"})

    def at_commit(*a, **k):
        if st_.get_current("beta") == 0.0 and warm and warm[-1][2] is None:
            warm[-1][2] = float(st_.get_current("logz"))

    wrap_method(core.mutator, "run", before=before, after=after)
    wrap_method(st_, "commit_current_to_history", before=at_commit)
    with quiet():
        try:
            lib_call(s.run, n_total=max(64, n_total_mult * case["N"]), progress=False, what="Sampler.run", **(run_kwargs or {}))
        except NoFiniteDraw:
            return s, t, None
    return s, t, warm


def full_cases():
    from vlib import cfggen

    return cfggen.full_config(pools=(None, None, "permuting", "executor", 1), allow_extra=False).map(
        lambda c: (lambda c2: dict(c2, zero=True, N=c2["n_particles"], seed=c2["rs_value"], f=None,
                                   vv=None if c2["metric"] == "ess" else float(c2["metric"][2:])))(
            dict(c, np_default=False, n_particles=16) if c.get("np_default") else c))  # batches of 2*d draws would mostly be finding K7


def exec_full(case):
    """the same invariants over complete random configurations (vlib.cfggen) on a target with a zero-likelihood region"""
    from vlib import cfggen

    np.random.seed(case["rs_value"] % 2**31)
    return exec_case(case, built=cfggen.build(case))


def hull_check(case, warm, label=""):
    lo, hi = math.inf, -math.inf
    for k, (n_tot, n_fin, lz) in enumerate(warm):
        if n_fin == 0:
            return
        lf = math.log(n_fin / n_tot)
        lo, hi = min(lo, lf), max(hi, lf)
        if lz is None or not (lo - 1e-9 <= lz <= hi + 1e-9):
            raise Violation(
                f"{label}warm-up iteration {k + 1}: recorded log-evidence {lz!r} outside the range [{lo:.6f}, {hi:.6f}] of the batch fractions "
                f"log(finite/total) seen so far: the excluded mass is not counted exactly once", sig={"kind": "warmup-logz-outside-hull"})


def exec_resume(case):
    """the prior-sampling phase interrupted and resumed: a run writes a checkpoint after every iteration; a FRESH sampler (and, in
    half of the cases, the SAME sampler object) resumes from a checkpoint taken while beta was still 0 - the evidence recorded for
    every later warm-up batch must still lie in the range of the batch fractions seen so far (those before the checkpoint included)"""
    import glob
    import os

    from vlib.runs import scratch_dir

    with scratch_dir() as od:
        t = make_target(case)
        np.random.seed(case["seed"])
        cfg = dict(sample=case["kernel"], clustering=case["clustering"], n_particles=case["N"], ess_ratio=case["ess_ratio"],
                   volume_variation=case.get("vv"), resample=case.get("resample", "mult"))
        s = make_sampler(t, cfg, output_dir=od)
        s, t, warm = run_case(case, built=(s, t), run_kwargs={"save_every": 1})
        files = {int(os.path.basename(f).split("_")[-1].split(".")[0]): f for f in glob.glob(os.path.join(od, "*.state"))
                 if not f.endswith("_final.state")}
        ks = [k for k in sorted(files) if k < len(warm)]  # checkpoints written while beta was still 0 with a warm-up batch still to come
        if not ks:
            return False
        k = ks[case["seed"] % len(ks)]
        for same_object in ((False, True) if case["seed"] % 2 else (False,)):
            if same_object:
                s2, t2 = s, t
            else:
                t2 = make_target(case)
                s2 = make_sampler(t2, cfg, output_dir=od)
            np.random.seed(case["seed"] + 5)
            w2 = [list(w) for w in warm[:k]]
            run_case(case, built=(s2, t2), run_kwargs={"resume_state_path": files[k]}, warm=w2)
            hull_check(case, w2, label=f"resumed from the checkpoint after warm-up batch {k} ({'same' if same_object else 'fresh'} sampler object): ")
    return True


def exec_case(case, built=None):
    s, t, warm = run_case(case, built=built)
    if warm is None:
        return {"nontrivial": False, "classes": ["skipped:no-finite-draw"]}
    st_ = s.state
    T = st_.get_history_length()
    for i in range(T):
        if np.any(np.isneginf(np.asarray(st_.get_history("logl", index=i), dtype=float))):
            raise Violation(f"history batch {i} contains log-likelihood -inf", sig={"kind": "neginf-stored"})
        if case["mode"] in ("blobs2", "blobs_auto", "blobs_str", "blobs_rec", "blobs_arr", "blobs_f4", "blobs_int"):
            xb, bb = np.asarray(st_.get_history("x", index=i)), st_.get_history("blobs", index=i)
            for k in range(len(xb)):
                if not t.blob_match(xb[k], bb[k]):
                    raise Violation(f"history batch {i}, particle {k}: the stored blobs are not the blobs of the stored point: auxiliary data of "
                                    "a replaced zero-likelihood draw was kept", sig={"kind": "excluded-draw-blob-stored"})
        if case["mode"] == "blobs":
            # nothing of an excluded draw may survive: the stored blob must be the blob of the stored (supported) point
            xb, bb = np.asarray(st_.get_history("x", index=i)), np.asarray(st_.get_history("blobs", index=i), dtype=float).reshape(-1)
            for k in range(len(xb)):
                if bb[k] != t.blob_row(xb[k]):
                    raise Violation(f"history batch {i}, particle {k}: the stored blob {bb[k]!r} is not the blob of the stored point "
                                    f"(blob(x)={t.blob_row(xb[k])!r}): auxiliary data of a replaced zero-likelihood draw was kept",
                                    sig={"kind": "excluded-draw-blob-stored"})
    for tr in (False, True):
        o = lib_call(s.posterior, trim_importance_weights=tr, what="posterior")
        if np.any(np.isneginf(np.asarray(o[2], dtype=float))):
            raise Violation("posterior() returns a sample with log-likelihood -inf", sig={"kind": "neginf-stored"})
    betas = [float(b) for b in st_.get_history("beta")]
    n_warm = sum(1 for b in betas if b == 0.0)
    if n_warm != len(warm):
        raise Violation(f"{n_warm} beta=0 iterations in the history but {len(warm)} prior-sampling mutation calls observed",
                        sig={"kind": "warmup-count"})
    lo, hi = math.inf, -math.inf
    with_inf, skipped = 0, 0
    for k, (n_tot, n_fin, lz) in enumerate(warm):
        if n_tot != case["N"]:
            raise Violation(f"warm-up iteration {k + 1} evaluated {n_tot} points, expected N={case['N']}", sig={"kind": "warmup-batch"})
        if n_fin == 0:
            skipped += 1
            return {"nontrivial": False, "classes": ["skipped:no-finite-draw"]}
        lf = math.log(n_fin / n_tot)
        lo, hi = min(lo, lf), max(hi, lf)
        if n_fin < n_tot:
            with_inf += 1
        if lz is None or not (lo - 1e-9 <= lz <= hi + 1e-9):
            raise Violation(
                f"warm-up iteration {k + 1}: recorded log-evidence {lz!r} outside the range [{lo:.6f}, {hi:.6f}] of the batch fractions "
                f"log(finite/total) seen so far: the excluded mass is not counted exactly once",
                sig={"kind": "warmup-logz-outside-hull"})
    resumed = built is None and case["seed"] % 3 == 0 and exec_resume(case)
    classes = (["resumed-in-warm-up"] if resumed else []) + ["metric:" + ("ess" if case.get("vv") is None else "vv"), "warmups=%d" % min(len(warm), 9), "f=?" if case["f"] is None else ("f<0.5" if case["f"] < 0.5 else "f>=0.5"), "mode:" + case["mode"],
               "clustering" if case["clustering"] else "noclustering"]
    return {"nontrivial": with_inf >= 2, "classes": classes,
            "sample": {"f": case["f"], "N": case["N"], "ess_ratio": case["ess_ratio"], "warmup_batches": [[w[0], w[1], w[2]] for w in warm][:8]}}


class Ensemble:
    name = "final_evidence"
    CELLS = [
        {"f": 0.3, "uc": 0.85, "w": 0.05, "flat": False, "ess_ratio": 4.0, "N": 32, "d": 1, "kernel": "rwm", "mode": "vector", "clustering": False},
        {"f": 0.5, "uc": 0.8, "w": 0.1, "flat": False, "ess_ratio": 2.0, "N": 32, "d": 2, "kernel": "tpcn", "mode": "vector", "clustering": False},
        {"f": 0.3, "uc": 0.9, "w": 0.03, "flat": True, "ess_ratio": 8.0, "N": 32, "d": 1, "kernel": "rwm", "mode": "scalar", "clustering": False},
        {"f": 0.7, "uc": 0.8, "w": 0.08, "flat": False, "ess_ratio": 1.0, "N": 64, "d": 1, "kernel": "tpcn", "mode": "blobs", "clustering": False},
    ]

    def n_tasks(self, tier, seed):
        return 2 if tier == "quick" else 4

    @staticmethod
    def errors(cell, seeds):
        errs = []
        for sd in seeds:
            c = dict(cell, seed=int(sd))
            s, t, warm = run_case(c, n_total_mult=4, on_no_finite="skip")
            if warm is None:
                continue
            errs.append(float(s.evidence()[0]) - true_logz(t))
        return np.array(errs)

    def execute(self, case):
        cell = case["cell"]
        e = self.errors(cell, case["seeds"])
        R = len(e)
        m, sd = float(e.mean()), float(e.std(ddof=1))
        # finite-particle allowance: 1.5 sd^2 (Jensen) plus the O(1/N) bias that the log of a binomial support fraction carries into the
        # evidence, (1-f)/(2 N f) per prior batch - measured on the unchanged tree: -0.085 at N=32 and -0.015 at N=128 for f=0.3, i.e.
        # about 1.2 (1-f)/(N f), shrinking like 1/N as the property allows; twice that scale is allowed
        thr = stats.t.isf(case["alpha"] / 2, R - 1) * sd / math.sqrt(R) + 1.5 * sd * sd + 2.0 * (1.0 - cell["f"]) / (cell["N"] * cell["f"])
        if abs(m) > thr:
            raise Violation(f"final log-evidence biased on a target with supported fraction f={cell['f']}: mean error {m:+.4f} over R={R} runs "
                            f"(sd {sd:.4f}, allowed {thr:.4f})", sig={"kind": "final-evidence-biased"})
        return {"mean_error": m, "sd": sd, "allowed": thr}

    def run_task(self, pid, tier, seed, shard):
        rec = Recorder(pid, tier, seed)
        cell = self.CELLS[(shard + seed) % len(self.CELLS)]
        R = 24 if tier == "quick" else 64
        ss = np.random.SeedSequence([seed, shard, 11])
        seeds = [int(x) for x in ss.generate_state(R)]
        case = {"cell": cell, "seeds": seeds, "alpha": 1e-6}
        try:
            info = self.execute(case)
            rec.record(self.name, case, True, ["cell-f=%s" % cell["f"]], sample={"cell": cell, "R": R, **info})
        except Violation:
            seeds2 = [int(x) for x in np.random.SeedSequence([seed, shard, 12]).generate_state(2 * R)]
            c2 = {"cell": cell, "seeds": seeds2, "alpha": 1e-4}
            try:
                self.execute(c2)
                rec.record(self.name, case, True, ["stage1-flag-not-confirmed"])
            except Violation as v:
                f = rec.classify(self.name, v)
                if f is not None:
                    rec.known(f, self.name, v)
                else:
                    rec.violation(self.name, v, c2)
        return rec.export()


CHECKS = [
    Check("warmup_full", full_cases, exec_full, n={"quick": 64, "thorough": 1200}, shards={"quick": 16, "thorough": 16},
          shrink={"quick": False, "thorough": True}),
    Check("warmup", cases, exec_case, n={"quick": 160, "thorough": 3000}, shards={"quick": 16, "thorough": 16},
          shrink={"quick": False, "thorough": True}),
    Ensemble(),
]
