"""C01 - weighted posterior samples estimate posterior expectations consistently (seeded ensembles, STAT vs quadrature truth).

For each generated cell (target family with generated parameters x kernel x resampler x clustering) R independently seeded runs
are made; for every estimand (coordinate means, variance ratios, marginal CDF at the true median, mode mass, circular moments;
all standardised) with m = mean error and s = per-run sd over the replicas:
        pass  <=>  |m| <= t*(alpha, R-1) * s / sqrt(R) + 3 s^2
(the s^2 term is the finite-particle allowance: the bias of a self-normalised importance estimator is of the order of its own
variance, which shrinks like 1/N). Stage 1 alpha = 1e-6; a flagged (cell, estimand) is re-run with fresh disjoint seeds and 2R
replicas and must exceed alpha = 1e-4 with the same sign to count. Both the untrimmed and the default (trimmed) posterior()
output are evaluated on the same runs.
"""
import math
from concurrent.futures import ProcessPoolExecutor
import multiprocessing as mp

import numpy as np

from vlib import ens
from vlib.core import Recorder, Violation, jsonable

PID = "C01"
LEVEL = "exploration"
RULE = (
    "Cells are generated from VERIF_SEED, stratified so every target family {interior Gaussian (affine), wall-abutting truncated Gaussian, "
    "separated bimodal, periodic von Mises incl. seam-centred, reflective truncated Gaussian, exp-transformed prior, zero-likelihood slab, likelihood 1000x narrower than the prior} and both kernels appear, x "
    "resampler x clustering, d in {1,2}; R independently seeded full runs per cell at N=64 (thorough: also N=256 for a third of the cells). "
    "evaluations = sampler runs; non-trivial = a run that passed through >= 3 distinct temperatures and ended with posterior ESS >= n_total; "
    "distinct = distinct (cell, replica seed)."
)
ASSUMPTIONS = [
    "truth by composite Simpson quadrature (40001 nodes) per coordinate; targets are sums of products over coordinates; the vectorised re-implementation is cross-checked against the instrumented target",
    "statistical verdicts have a resolution: quick ~0.1 posterior sd on means / ~15% on variances, thorough ~2-4% on variances; a bias below that is not seen",
    "crashed replicas (finding K4) are dropped from the ensemble and counted",
]
CHECK = "posterior"
A_COEF = 3.0
A_CAP = 0.25  # the finite-particle allowance may not exceed a quarter of a posterior sd / 25% of a variance, whatever the spread


def cells_for(tier, seed):
    rng = np.random.default_rng([seed, 101])
    fams = list(ens.FAMILIES)
    n = 18 if tier == "quick" else 54
    cells = []
    bits_rng = np.random.default_rng([seed, 103])
    bits = None
    for i in range(n):
        fi, npass = i % len(fams), i // len(fams)
        fam = fams[fi]
        if fi == 0:
            # even passes draw (kernel, clustering, resampler) per family; the following odd pass takes the complement, so every
            # family meets both values of every factor within two passes
            bits = bits_rng.integers(0, 2, size=(len(fams), 3)) if npass % 2 == 0 else 1 - bits
        k, c, r = (int(v) for v in bits[fi])
        kernel = ["tpcn", "rwm"][k]
        if fam in ("periodic", "reflective", "mixed"):
            # tpCN x folding is finding K1 (its matcher has no magnitude bound, so such a cell decides nothing): folded families run
            # the random-walk kernel; one tpCN pass is kept in the thorough tier for the record
            kernel = "rwm" if npass != 2 else "tpcn"
        cells.append(ens.make_cell(int(rng.integers(0, 2**31 - 1)), family=fam, kernel=kernel, clustering=bool(c), resample=["mult", "syst"][r],
                                   N=64 if (tier == "quick" or i % 3) else 256))
    # one large-N interior cell in every tier: the finite-particle allowance is small there, which is what lets the paired
    # trimmed-vs-untrimmed comparison (and the absolute test) resolve a bias of a few per cent
    cells.append(ens.make_cell(int(rng.integers(0, 2**31 - 1)), family="gauss", kernel="tpcn", clustering=False, d=1, N=256))
    # one cell in volume-variation mode with a tight target (schedule stays / takes tiny steps)
    cells.append(ens.make_cell(int(rng.integers(0, 2**31 - 1)), family="gauss", kernel="rwm", clustering=False, d=2, N=64, vv=0.05))
    return cells


def R_for(tier):
    return 32 if tier == "quick" else 96


CHUNK = 4


class Runs:
    name = CHECK

    def n_tasks(self, tier, seed):
        return len(cells_for(tier, seed)) * (R_for(tier) // CHUNK)

    def run_task(self, pid, tier, seed, shard):
        rec = Recorder(pid, tier, seed)
        cells = cells_for(tier, seed)
        per = R_for(tier) // CHUNK
        ci, ch = shard // per, shard % per
        rec.extra["replicas"] = run_chunk(cells[ci], ci, seed, 1, ch * CHUNK, CHUNK)
        return rec.export()

    def execute(self, case):
        """Replay of a confirmed (cell, estimand): re-run stage 2 exactly."""
        cell, key = case["cell"], case["estimand"]
        reps = []
        with ProcessPoolExecutor(max_workers=16, mp_context=mp.get_context("fork")) as ex:
            for r in ex.map(_chunk_star, [(cell, 0, case["seed"], 2, k * CHUNK, CHUNK) for k in range(case["R"] // CHUNK)]):
                reps.extend(r)
        if key.startswith("paired:"):
            good = [r for r in reps if "errs" in r]
            dv = np.array([r["errs"]["trimmed:" + key[7:]] - r["errs"]["untrimmed:" + key[7:]] for r in good])
            su = float(np.std([r["errs"]["untrimmed:" + key[7:]] for r in good], ddof=1))
            m, s = float(dv.mean()), float(dv.std(ddof=1))
            allowed = float(ens.stats.t.isf(case["alpha"] / 2, len(dv) - 1)) * s / math.sqrt(len(dv)) + 6.0 * su * su
            flagged, vals = abs(m) > allowed, dv
        else:
            vals = [r["errs"][key] for r in reps if "errs" in r]
            m, s, allowed, flagged = ens.bias_test(vals, case["alpha"], A_COEF, A_CAP, ens.quadratic_partner_var(key, reps))
        if flagged:
            raise Violation(describe(cell, key, m, s, allowed, len(vals), reps), sig=attribute_trimming(signature(cell, key, m, reps), key, m, reps))
        return {}


def _chunk_star(a):
    return run_chunk(*a)


def run_chunk(cell, ci, seed, stage, start, count):
    tr = ens.truth(cell)
    out = []
    for r in range(start, start + count):
        ss = int(np.random.SeedSequence([seed, cell["seed"], stage, r]).generate_state(1)[0])
        rep = ens.finalize_replica(ens.run_replica(cell, ss), tr, cell)
        rep["cell"] = ci
        rep["seed"] = ss
        out.append(jsonable(rep))
    return out


def signature(cell, key, m, reps):
    cross = float(np.mean([r["crossing"] for r in reps if "errs" in r] or [0.0]))
    est, what = key.split(":") if ":" in key else ("-", key)
    est = "trimmed-vs-untrimmed" if est == "paired" else est
    return {"kind": "posterior-biased", "kernel": cell["kernel"], "clustering": cell["clustering"], "family": cell["family"],
            "estimator": est, "estimand": "".join(c for c in what if not c.isdigit()).split("@")[0], "sign": "+" if m > 0 else "-",
            "folded": cell["family"] in ("periodic", "reflective"), "labels": "position" if cell["clustering"] else "none",
            "crossing": ">1e-3" if cross > 1e-3 else "<=1e-3",
            # the recorded findings K1-K3 are biases of a few per cent / a tenth of a posterior sd; anything gross is something else
            "magnitude": "moderate" if abs(m) <= 0.25 else "gross"}


def attribute_trimming(sig, key, m, reps):
    """Is a bias of the default (trimmed) output the default trimming itself (finding K2)? Then the trimmed-minus-untrimmed
    difference on the same runs - which carries far less Monte-Carlo noise - is significant on its own and has the sign of the bias."""
    good = [r for r in reps if "errs" in r]
    if key.startswith("trimmed:") and good and ("untrimmed:" + key[8:]) in good[0]["errs"]:
        dv = np.array([r["errs"][key] - r["errs"]["untrimmed:" + key[8:]] for r in good])
        md, sed = float(dv.mean()), float(dv.std(ddof=1)) / math.sqrt(len(dv))
        if (md > 0) == (m > 0) and abs(md) > float(ens.stats.t.isf(1e-4 / 2, len(dv) - 1)) * sed:
            sig["attributed"] = "trimming"
    return sig


def describe(cell, key, m, s, allowed, R, reps):
    cross = float(np.mean([r["crossing"] for r in reps if "errs" in r] or [0.0]))
    return (f"posterior estimate '{key}' is biased on a {cell['family']} target (d={cell['target']['d']}, kernel={cell['kernel']}, "
            f"resample={cell['resample']}, clustering={cell['clustering']}, N={cell['N']}): mean standardised error {m:+.4f} over R={R} seeded runs, "
            f"per-run sd {s:.4f}, allowed {allowed:.4f} (cluster-crossing rate {cross:.4f})")


def finish(rec, tier, seed, jobs):
    reps = rec.extra.pop("replicas", [])
    cells = cells_for(tier, seed)
    R = R_for(tier)
    table = []
    n_crash = 0
    for ci, cell in enumerate(cells):
        mine = [r for r in reps if r["cell"] == ci]
        ok = [r for r in mine if "errs" in r]
        for r in mine:
            if "crash" in r:
                n_crash += 1
                v = Violation(f"Sampler.run crashed in an ensemble replica: {r.get('msg')}", sig={"kind": "exception", **r["crash"]})
                f = rec.classify(CHECK, v)
                if f is not None:
                    rec.known(f, CHECK, v)
                else:
                    rec.violation(CHECK, v, {"cell": cell, "seed": r["seed"], "crash": True})
            else:
                nt = r["beta_levels"] >= 3
                rec.record(CHECK, {"cell": ci, "seed": r["seed"]}, nontrivial=nt,
                           classes=["family:" + cell["family"], "kernel:" + cell["kernel"], "clustering" if cell["clustering"] else "noclustering",
                                    "N=%d" % cell["N"]], sample={"cell": cell, "seed": r["seed"], "errors": {k: round(v, 4) for k, v in list(r["errs"].items())[:6]}})
        if len(ok) < 8:
            continue
        flagged = []
        for key in ok[0]["errs"]:
            if key == "logz":
                continue  # C02's subject
            m, s, allowed, fl = ens.bias_test([r["errs"][key] for r in ok], 1e-6, A_COEF, A_CAP, ens.quadratic_partner_var(key, ok))
            table.append({"cell": ci, "family": cell["family"], "kernel": cell["kernel"], "clustering": cell["clustering"], "N": cell["N"],
                          "estimand": key, "mean_err": round(m, 5), "sd": round(s, 5), "allowed": round(allowed, 5), "R": len(ok)})
            if fl:
                flagged.append((key, m))
        # paired comparison of the default (trimmed) output with the untrimmed one on the same runs: if both are consistent
        # their difference is bounded by the two finite-particle allowances (6 s_u^2), with far less Monte-Carlo noise.
        # Only evaluated for large-N cells, where that allowance is small enough for the comparison to mean something.
        for key in [k for k in ok[0]["errs"] if k.startswith("untrimmed:") and cell["N"] >= 256]:
            kt = "trimmed:" + key.split(":", 1)[1]
            dv = np.array([r["errs"][kt] - r["errs"][key] for r in ok])
            su = float(np.std([r["errs"][key] for r in ok], ddof=1))
            md, sd_ = float(dv.mean()), float(dv.std(ddof=1))
            allowed = float(ens.stats.t.isf(1e-6 / 2, len(dv) - 1)) * sd_ / math.sqrt(len(dv)) + 6.0 * su * su
            table.append({"cell": ci, "family": cell["family"], "kernel": cell["kernel"], "clustering": cell["clustering"], "N": cell["N"],
                          "estimand": "paired:" + key.split(":", 1)[1], "mean_err": round(md, 5), "sd": round(sd_, 5), "allowed": round(allowed, 5), "R": len(ok)})
            if abs(md) > allowed:
                flagged.append(("paired:" + key.split(":", 1)[1], md))
        if not flagged:
            continue
        # stage 2: fresh disjoint seeds, 2R replicas (once per cell, shared by all flagged estimands)
        with ProcessPoolExecutor(max_workers=max(1, jobs), mp_context=mp.get_context("fork")) as ex:
            reps2 = []
            for r in ex.map(_chunk_star, [(cell, ci, seed, 2, k * CHUNK, CHUNK) for k in range(2 * R // CHUNK)]):
                reps2.extend(r)
        ok2 = [r for r in reps2 if "errs" in r]
        rec.evaluations += len(reps2)
        for key, m1 in flagged:
            if key.startswith("paired:"):
                ku, kt = "untrimmed:" + key[7:], "trimmed:" + key[7:]
                dv = np.array([r["errs"][kt] - r["errs"][ku] for r in ok2])
                su = float(np.std([r["errs"][ku] for r in ok2], ddof=1))
                m, s = float(dv.mean()), float(dv.std(ddof=1))
                allowed = float(ens.stats.t.isf(1e-4 / 2, len(dv) - 1)) * s / math.sqrt(len(dv)) + 6.0 * su * su
                fl = abs(m) > allowed
            else:
                m, s, allowed, fl = ens.bias_test([r["errs"][key] for r in ok2], 1e-4, A_COEF, A_CAP, ens.quadratic_partner_var(key, ok2))
            if not fl or (m > 0) != (m1 > 0):
                rec.classes[f"{CHECK}:stage1-flag-not-confirmed"] += 1
                continue
            sig = attribute_trimming(signature(cell, key, m, ok2), key, m, ok2)
            v = Violation(describe(cell, key, m, s, allowed, len(ok2), ok2), sig=sig)
            f = rec.classify(CHECK, v)
            if f is not None:
                rec.known(f, CHECK, v)
                rec.classes[f"{CHECK}:known:{f['id']}"] += 1
            else:
                rec.violation(CHECK, v, {"cell": cell, "estimand": key, "seed": seed, "R": 2 * R, "alpha": 1e-4})
    rec.extra["ensemble_table"] = table[:400]
    rec.extra["crashed_replicas"] = n_crash
    if table:
        rec.extra["resolution_note"] = "smallest |mean error| flagged with ~99% power ~ 6*sd/sqrt(R) + 3*sd^2 per row of ensemble_table"


CHECKS = [Runs()]
