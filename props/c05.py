"""C05 - temperature schedule is monotone, bounded and ESS-controlled.

synthetic: Reweighter.run() is called once on generated histories (realistic tempered families and adversarial ones);
real: the same oracle is applied after every Reweighter.run() of generated sampler runs (wrapped on the instance).
Oracle (REF = long-double MIS weights): 0 <= beta- <= beta+ <= 1; first iteration beta=0; returned weights, recorded
log-evidence and recorded ESS all equal REF at the recorded beta+; if the step advanced: ESS mode -> REF ESS(beta+) >= target;
volume-variation mode -> beta+ is not beyond an ESS-limited temperature (some beta* in [beta+,1] has REF ESS >= target).
"""
import numpy as np
from hypothesis import strategies as st

from vlib.core import Violation, lib_call
from vlib.hypo import Check
from vlib.refs import ess_from_logw, mis_logw, norm_weights
from vlib.runs import core_of, make_sampler, quiet, wrap_method
from vlib.targets import Target, simple_target_spec
from props.c07 import row_to_cfg

PID = "C05"
LEVEL = "exploration"
RULE = (
    "synthetic: Hypothesis draws histories (T in 1..8 batches, non-decreasing beta_t incl. several beta=0 batches, log-likelihoods from a tempered "
    "Gaussian family of scale 10^U(-0.5,5.5) in d dims with consistent or perturbed logz_t, or adversarial ones with a non-monotone ESS curve) x "
    "n_particles in {6..100} x ess_ratio in {0.5,1,2,3.5,1.25,0.75,0.29,2.3} or U(0.3,4) (non-integer ESS targets included) x metric {ESS, volume-variation target in {0.05,0.3,1,5}}; real: sampler runs over the option "
    "lattice observed after every Reweighter.run(). Non-trivial = the step advanced (beta+ > beta-) from a history with >= 2 batches."
)
ASSUMPTIONS = [
    "tolerances 1e-9 (weights absolute, ESS relative, logz relative to max(1,|logz|, M*1e-7))",
    "volume-variation mode: 'not beyond the ESS-limited temperature' is decided on beta+, the limit the code itself computed (if observable) and a 400-point grid of [beta+,1]",
]


@st.composite
def synth_cases(draw):
    T = draw(st.integers(1, 8))
    # the previous temperature may already be within the beta tolerance (1e-4) of one, or just outside it; a likelihood with a huge
    # log-likelihood spread then puts the ESS = target crossing inside that last sliver
    last_beta = draw(st.sampled_from([None, None, None, None, 1 - 5e-5, 1 - 2e-4, 1 - 1e-6, 0.999]))
    near_one = last_beta is not None
    return {"T": T, "d": draw(st.integers(1, 3)), "N": draw(st.sampled_from([6, 8, 10, 16, 30, 32, 64, 100])),
            "ess_ratio": draw(st.one_of(st.sampled_from([0.5, 1.0, 2.0, 3.5, 1.25, 0.75, 0.29, 2.3]), st.floats(0.3, 4.0))),
            "vv": draw(st.sampled_from([None, None, 0.05, 0.3, 1.0, 5.0])),
            "logscale": draw(st.floats(3.5, 5.5)) if near_one else draw(st.one_of(st.floats(-0.5, 3.0), st.floats(3.0, 5.5))),
            "n_warm": draw(st.integers(1, 4)),
            "beta_pow": draw(st.sampled_from([1.0, 3.0])), "beta_max": draw(st.sampled_from([1.0, 0.1, 1e-3])),
            "family": draw(st.sampled_from(["adversarial", "adversarial", "tempered", "perturbed-logz"] if near_one else
                                           ["tempered", "tempered", "perturbed-logz", "adversarial"])),
            "unequal": draw(st.booleans()), "seed": draw(st.integers(0, 2**31 - 1)), "last_beta": last_beta}


def build_history(case):
    from tempest.state_manager import StateManager

    rng = np.random.default_rng(case["seed"])
    T, d, N = case["T"], case["d"], case["N"]
    s = 10.0 ** case["logscale"]
    nw = min(case["n_warm"], T)
    betas = np.r_[np.zeros(nw), np.sort(rng.random(T - nw) ** case["beta_pow"] * case["beta_max"])]
    if case.get("last_beta") is not None and T > nw:
        betas[-1] = float(case["last_beta"])
        betas = np.r_[betas[:nw], np.sort(betas[nw:])]
    sm = StateManager(d)
    for t in range(T):
        nt = int(rng.integers(max(2, N // 2), N + 1)) if case["unequal"] else N
        bt = float(betas[t])
        if case["family"] == "adversarial":
            x = rng.random((nt, d))
            logl = np.where(rng.random(nt) < 0.2, rng.uniform(0, s, nt), rng.uniform(-s, 0, nt))
            logz = float(rng.normal(0, 1))
        else:
            x = rng.normal(0, 1.0 / np.sqrt(1 + bt * s), (nt, d))
            logl = -0.5 * s * np.sum(x * x, axis=1)
            logz = -0.5 * d * np.log(1 + bt * s)
            if case["family"] == "perturbed-logz":
                logz += float(rng.normal(0, 0.3))
        u = 1.0 / (1.0 + np.exp(-x))
        sm.update_current(dict(u=u, x=x, logl=logl, beta=bt, logz=float(logz), iter=t + 1, calls=0, steps=1, acceptance=1.0,
                               efficiency=1.0, ess=1.0))
        sm.commit_current_to_history()
    return sm, float(betas[-1])


def oracle(sm, N, ess_ratio, vv, beta_prev, w, beta_upper_seen, where):
    """Check the state right after Reweighter.run() against REF on the history as it is now."""
    T = sm.get_history_length()
    b = float(sm.get_current("beta"))
    lz = float(sm.get_current("logz"))
    es = float(sm.get_current("ess"))
    target = ess_ratio * N
    if T == 0:
        if b != 0.0 or lz != 0.0:
            raise Violation(f"{where}: first iteration must start at beta=0, logz=0 (got beta={b!r}, logz={lz!r})", sig={"kind": "first-iteration"})
        if len(w) != N or np.max(np.abs(np.asarray(w) - 1.0 / N)) > 1e-12:
            raise Violation(f"{where}: first-iteration weights are not uniform over {N} particles", sig={"kind": "first-iteration"})
        return {"advanced": False}
    if not (0.0 <= beta_prev <= b <= 1.0):
        raise Violation(f"{where}: temperature moved from {beta_prev!r} to {b!r} (must satisfy 0 <= beta- <= beta+ <= 1)", sig={"kind": "beta-order"})
    L = [np.asarray(sm.get_history("logl", index=i), dtype=float) for i in range(T)]
    BZ = [float(x) for x in sm.get_history("beta")]
    LZ = [float(x) for x in sm.get_history("logz")]
    lw, lzr, M = mis_logw(L, BZ, LZ, b)
    wr = norm_weights(lw)
    essr = ess_from_logw(lw)
    w = np.asarray(w, dtype=float)
    if w.shape != wr.shape or np.max(np.abs(w - wr)) > 1e-9:
        raise Violation(f"{where}: the weights handed to training/resampling are not the MIS weights at the recorded beta={b!r} "
                        f"(max diff {np.max(np.abs(w - wr)) if w.shape == wr.shape else 'shape'})", sig={"kind": "weights-other-temperature"})
    if abs(lz - float(lzr)) > 1e-9 * max(1.0, abs(float(lzr)), M * 1e-7):
        raise Violation(f"{where}: recorded log-evidence {lz!r} is not the MIS evidence {float(lzr)!r} at the recorded beta={b!r}",
                        sig={"kind": "logz-other-temperature"})
    if abs(es - essr) > 1e-9 * essr + 1e-9:
        raise Violation(f"{where}: recorded ESS {es!r} is not the ESS {essr!r} of the weights at the recorded beta={b!r}", sig={"kind": "ess-other-temperature"})
    adv = b > beta_prev
    if adv:
        if vv is None:
            if essr < target * (1 - 1e-9):
                raise Violation(f"{where}: advanced from beta={beta_prev!r} to {b!r} where ESS={essr:.4f} < target {target:.4f}", sig={"kind": "ess-below-target"})
        else:
            seen_f = []
            for x in beta_upper_seen or []:  # optional observation: whatever the helper returns, keep only plain numbers in [0,1]
                for y in (x if isinstance(x, (tuple, list)) else [x]):
                    if isinstance(y, (int, float, np.floating)) and 0.0 <= float(y) <= 1.0:
                        seen_f.append(float(y))
            cands = [b] + seen_f + list(np.linspace(b, 1.0, 400))
            ok = False
            for g in cands:
                if g >= b - 1e-15 and ess_from_logw(mis_logw(L, BZ, LZ, float(g))[0]) >= target * (1 - 1e-9):
                    ok = True
                    break
            if not ok:
                raise Violation(f"{where}: volume-variation mode advanced to beta={b!r}, beyond every temperature with ESS >= target {target:.3f} "
                                f"(ESS there {essr:.3f})", sig={"kind": "beyond-ess-limit"})
    return {"advanced": adv, "ess": essr}


def exec_synth(case):
    from tempest.steps.reweight import Reweighter

    sm, bprev = build_history(case)
    rw = Reweighter(sm, None, case["N"], case["ess_ratio"], case["vv"], 0.01, 1e-4)
    seen = []
    if hasattr(rw, "_find_beta_upper_limit"):
        wrap_method(rw, "_find_beta_upper_limit", after=lambda r, *a, **k: seen.append(r))
    iter_before = int(sm.get_current("iter"))
    w = lib_call(rw.run, what="Reweighter.run")
    if int(sm.get_current("iter")) != iter_before + 1:
        raise Violation("Reweighter.run did not advance the iteration counter by one", sig={"kind": "iter-counter"})
    info = oracle(sm, case["N"], case["ess_ratio"], case["vv"], bprev, w, seen, "synthetic history")
    second = case["seed"] % 3 == 0
    if second:
        # second act on the SAME StateManager and Reweighter: the history is replaced (import / load) by a different one of the same
        # extent (same number of iterations and samples, other log-likelihoods); the step must be decided on the new history
        ls = case["logscale"]
        smB, bprevB = build_history(dict(case, logscale=ls + 0.37 if ls < 5 else ls - 0.37))
        if case["seed"] % 2:
            lib_call(sm.update_from_dict, smB.to_dict(), what="update_from_dict")
            how = "update_from_dict()"
        else:
            import os
            from vlib.runs import quiet, scratch_dir

            with scratch_dir() as td, quiet():
                lib_call(smB.save_state, os.path.join(td, "s.pkl"), what="save_state")
                lib_call(sm.load_state, os.path.join(td, "s.pkl"), what="load_state")
            how = "load_state()"
        del seen[:]
        w2 = lib_call(rw.run, what="Reweighter.run (second history)")
        oracle(sm, case["N"], case["ess_ratio"], case["vv"], bprevB, w2, seen,
               f"same StateManager and Reweighter after {how} replaced the history by another one of the same extent")
    return {"nontrivial": info["advanced"] and case["T"] >= 2,
            "classes": ["mode:" + ("ess" if case["vv"] is None else "vv"), "family:" + case["family"], "advanced" if info["advanced"] else "stayed",
                        "prev-beta=0" if bprev == 0 else "prev-beta>0"] + (["second-history"] if second else []),
            "sample": {"T": case["T"], "N": case["N"], "ess_ratio": case["ess_ratio"], "vv": case["vv"], "beta_prev": bprev,
                       "beta_new": float(sm.get_current("beta")), "ess": info.get("ess")}}


@st.composite
def real_cases(draw):
    return {"row": {"kernel": draw(st.sampled_from(["tpcn", "rwm"])), "resample": draw(st.sampled_from(["mult", "syst"])),
                    "clustering": draw(st.booleans()), "metric": draw(st.sampled_from(["ess", "vv0.3", "vv2", "vv0.05"])),
                    "mode": "vector", "zero": draw(st.booleans()), "d": draw(st.integers(1, 3))},
            "ess_ratio": draw(st.one_of(st.sampled_from([1.0, 2.0, 3.5, 1.3, 2.45]), st.floats(1.0, 3.5))), "seed": draw(st.integers(0, 2**31 - 2)),
            "narrow": draw(st.sampled_from([1.0, 0.1, 0.03]))}


def exec_real(case):
    row, seed = case["row"], case["seed"]
    d = row["d"]
    spec = simple_target_spec(np.random.default_rng(seed), d, "vector", zero=row["zero"])
    spec["width"] = [w * case.get("narrow", 1.0) for w in spec["width"]]  # likelihoods very narrow relative to the prior: many tiny temperature steps
    t = Target.from_spec(spec)
    cfg = row_to_cfg(row, d, seed)
    cfg["ess_ratio"] = case["ess_ratio"]
    np.random.seed(seed)
    s = make_sampler(t, cfg)
    core = core_of(s)
    sm = core.state
    N = cfg["n_particles"]
    vv = cfg.get("volume_variation")
    seen, prev, stats = [], {}, {"adv": 0, "n": 0}
    if hasattr(core.reweighter, "_find_beta_upper_limit"):
        wrap_method(core.reweighter, "_find_beta_upper_limit", after=lambda r, *a, **k: seen.append(r))

    def before(*a, **k):
        prev["beta"] = sm.get_current("beta")
        del seen[:]

    def after(w, *a, **k):
        bp = float(prev["beta"]) if prev["beta"] is not None else 0.0
        info = oracle(sm, N, case["ess_ratio"], vv, bp, w, list(seen), f"iteration {sm.get_current('iter')}")
        stats["n"] += 1
        stats["adv"] += int(info["advanced"])

    wrap_method(core.reweighter, "run", before=before, after=after)
    rewind = seed % 3 == 0 and case.get("narrow", 1.0) == 1.0
    if rewind:
        # the same sampler object is rewound: it runs to completion writing checkpoints, then resumes from an earlier one; every
        # reweighting step of the second pass must again refer to the pool as it is then
        import glob as _glob
        import os as _os
        from pathlib import Path as _Path
        from vlib.runs import scratch_dir

        with scratch_dir() as od, quiet():
            object.__setattr__(core.config, "output_dir", _Path(od))
            lib_call(s.run, n_total=96, progress=False, save_every=2, what="Sampler.run(save_every=2)")
            cks = sorted((f for f in _glob.glob(_os.path.join(od, "*.state")) if not f.endswith("_final.state")),
                         key=lambda f: int(_os.path.basename(f).split("_")[-1].split(".")[0]))
            if cks:
                np.random.seed(seed + 1)
                lib_call(s.run, n_total=128, progress=False, resume_state_path=cks[len(cks) // 2], what="Sampler.run(resume on the same object)")
    else:
        with quiet():
            lib_call(s.run, n_total=96, progress=False, what="Sampler.run")
    betas = [float(b) for b in sm.get_history("beta")]
    if rewind:
        classes_extra = ["rewound-on-same-object"]
    else:
        classes_extra = []
    if betas[0] != 0.0 or any(b2 < b1 for b1, b2 in zip(betas, betas[1:])) or betas[-1] > 1.0:
        raise Violation(f"temperature sequence of the run is not 0 = b1 <= b2 <= ... <= 1: {betas}", sig={"kind": "beta-order"})
    return {"nontrivial": stats["adv"] >= 1, "classes": ["metric:" + row["metric"], "clustering" if row["clustering"] else "noclustering",
                                                         "advances=%d" % min(stats["adv"], 9)] + classes_extra,
            "sample": {"row": row, "ess_ratio": case["ess_ratio"], "betas": betas}}


CHECKS = [
    Check("synthetic", synth_cases, exec_synth, n={"quick": 2400, "thorough": 40000}, shards={"quick": 16, "thorough": 16}),
    Check("real", real_cases, exec_real, n={"quick": 96, "thorough": 900}, shards={"quick": 16, "thorough": 16},
          shrink={"quick": False, "thorough": True}),
]
