"""C06 - resampling returns exactly n valid indices and is unbiased.

syst_exhaustive: for each generated (n, w) the behaviour of systematic_resample in
  the uniform offset u0 is piecewise constant; the breakpoints {c_j*n - i} are computed in
  exact rational arithmetic and the routine is called (numpy.random scripted) at every
  breakpoint, one ulp either side, every interval midpoint, 0 and nextafter(1,0).
resampler: Resampler.run (both schemes) and posterior(resample=True) on synthetic
  histories whose rows carry their own index, so the chosen indices are recoverable.
mult_unbiased: multinomial scheme, standardised count residuals over many draws (two-stage).
"""
import math
from fractions import Fraction

import numpy as np
from hypothesis import strategies as st
from scipy import stats

from vlib.core import HarnessError, Recorder, Violation, lib_call
from vlib.hypo import Check
from vlib.rnd import need_calls, scripted_uniform

PID = "C06"
LEVEL = "exploration"
RULE = (
    "Hypothesis draws (n in 1..120, weight vector of length 1..120 from {uniform, Dirichlet(0.05/1/20), exp N(0,sigma<=50), "
    "vectors with leading/trailing/interior zeros, explicit short float lists}, sum scaled to 1+delta with delta in {0, +-1ulp, +-U(0,sqrt(eps))}); "
    "for each (n,w) ALL offset intervals of u0 are enumerated (exhaustive in u0). Non-trivial = at least 2 positive weights and n>=2. "
    "distinct = distinct (n,w-spec) hash. resampler: synthetic index-tagged histories x {mult,syst} x blobs; mult_unbiased: count residuals."
)
ASSUMPTIONS = [
    "tau = n*|sum(w)-1| + 1e-9 copies of slack: the mass an accepted normalisation error moves onto the last positive index",
    "offsets with (u0+0)/n == 0.0 (u0 = 0 or subnormal) and w[0] == 0 sit on the breakpoint c=0 itself: either neighbour accepted there",
    "systematic_resample draws its offset with one of numpy.random.{random,rand,uniform,random_sample}; otherwise exit 2",
]

SQRTEPS = math.sqrt(float(np.finfo(np.float64).eps))


@st.composite
def nw_cases(draw):
    n = draw(st.one_of(st.integers(1, 12), st.integers(1, 120)))
    kind = draw(st.sampled_from(["uniform", "dirichlet", "lognormal", "zeros", "explicit", "random"]))
    spec = {"n": n, "kind": kind}
    if kind == "explicit":
        ws = draw(st.lists(st.floats(0.0, 1.0, allow_nan=False), min_size=1, max_size=8))
        if sum(ws) <= 0:
            ws[0] = 1.0
        spec["w"] = ws
    else:
        spec["m"] = draw(st.one_of(st.integers(1, 10), st.integers(1, 120)))
        spec["seed"] = draw(st.integers(0, 2**31 - 1))
        spec["alpha"] = draw(st.sampled_from([0.05, 1.0, 20.0]))
        spec["sigma"] = draw(st.sampled_from([1.0, 10.0, 50.0]))
        spec["zero_where"] = draw(st.sampled_from(["leading", "trailing", "interior", "random"]))
    spec["delta_kind"] = draw(st.sampled_from(["0", "+ulp", "-ulp", "+band", "-band", "0", "+band", "-band", "scaled"]))
    spec["scale"] = draw(st.sampled_from([0.5, 3.0, 1e-3, 7.0, 0.999, 1.001]))
    spec["delta_frac"] = draw(st.floats(0.0, 0.99))
    return spec


def build_w(spec):
    kind = spec["kind"]
    if kind == "explicit":
        w = np.array([float(x) for x in spec["w"]], dtype=float)
    else:
        rng = np.random.default_rng(spec["seed"])
        m = spec["m"]
        if kind == "uniform":
            w = np.ones(m)
        elif kind == "random":
            w = rng.random(m)
        elif kind == "dirichlet":
            w = rng.dirichlet(np.ones(m) * spec["alpha"])
        elif kind == "lognormal":
            w = np.exp(rng.normal(0, spec["sigma"], m))
        else:
            w = rng.random(m)
            z = spec["zero_where"]
            k = int(rng.integers(1, m)) if m > 1 else 0
            if z == "leading":
                w[:k] = 0
            elif z == "trailing":
                w[m - k:] = 0
            elif z == "interior" and m > 2:
                a = int(rng.integers(1, m - 1))
                w[a: a + max(1, k // 2)] = 0
            else:
                w[rng.random(m) < 0.5] = 0
        if not np.isfinite(w).all() or w.sum() <= 0:
            w = np.ones(m)
            w[0] = 1.0
    w = np.where(np.isfinite(w), w, 0.0)
    if w.sum() <= 0:
        w[0] = 1.0
    w = w / w.sum()
    dk = spec["delta_kind"]
    if dk == "+ulp":
        w = w * (1 + 2.3e-16)
    elif dk == "-ulp":
        w = w * (1 - 1.2e-16)
    elif dk == "+band":
        w = w * (1 + spec["delta_frac"] * SQRTEPS)
    elif dk == "-band":
        w = w * (1 - spec["delta_frac"] * SQRTEPS)
    elif dk == "scaled":
        w = w * float(spec.get("scale", 1.0))  # far outside the band: the routine renormalises (or may reject) - see execute_nw
    return w


_RAW = {}


def call_syst(n, w, u0):
    from tempest.tools import systematic_resample

    w = _RAW.get(id(w), w)  # execute_nw registers the raw (unnormalised) vector to hand to the routine
    # one (n, w) pair in three hands the weights in as a plain list (the documented example does), the others as an array
    arg = w.tolist() if (len(w) + int(n)) % 3 == 0 else w.copy()
    with scripted_uniform(u0) as calls:
        idx = systematic_resample(int(n), arg)
    need_calls(calls, "systematic_resample")
    if isinstance(arg, np.ndarray) and (len(w) + int(n)) % 3 == 1:
        # the SAME array object handed in again (a caller that keeps its weight vector): same offset, same answer
        with scripted_uniform(u0) as calls2:
            idx2 = systematic_resample(int(n), arg)
        need_calls(calls2, "systematic_resample")
        if not np.array_equal(np.asarray(idx), np.asarray(idx2)):
            raise Violation(f"systematic_resample({n}, w) called twice with the same array object and the same offset u0={u0!r} returns "
                            f"{np.asarray(idx).tolist()[:12]} and then {np.asarray(idx2).tolist()[:12]} (the routine changed its caller's weights)",
                            sig={"kind": "second-call-differs"})
    return np.asarray(idx)


def execute_nw(case):
    n = int(case["n"])
    w = build_w(case)
    m = len(w)
    outside = abs(float(np.sum(w)) - 1.0) > SQRTEPS
    w_in = w
    if outside:
        # outside the band the property's quantifier ends; the routine's documented behaviour is to renormalise. Either a clean
        # rejection (exception) or a sample that obeys the laws for w/sum(w) is accepted - a silently different distribution is not.
        try:
            call_syst(n, w_in, 0.5)
        except HarnessError:
            raise
        except Exception:  # noqa
            return {"nontrivial": False, "classes": ["outside-band-rejected"]}
        w = w / np.sum(w)
        _RAW.clear()
        _RAW[id(w)] = w_in
    W = [Fraction(float(x)) for x in w]
    S = sum(W)
    delta = float(S - 1)
    tau = n * abs(delta) + (1e-9 if not outside else 1e-7 * n)
    nw = np.array([float(n * x) for x in W])
    # exact breakpoints of the comb: u0 = c_j*n - i  in [0,1)
    bps = {Fraction(0)}
    cj = Fraction(0)
    for j in range(m):
        cj += W[j]
        b = cj * n
        bps.add(b - math.floor(b))  # a refinement of the true partition is harmless
    bps = sorted(b for b in bps if 0 <= b < 1)
    exact_pts = {float(b) for b in bps}
    pts = set()
    for b in bps:
        fb = float(b)
        for v in (fb, math.nextafter(fb, 0.0), math.nextafter(fb, 1.0)):
            if 0.0 <= v < 1.0:
                pts.add(v)
    edges = [float(b) for b in bps] + [1.0]
    mids = [min((edges[i] + edges[i + 1]) / 2, math.nextafter(1.0, 0.0)) for i in range(len(edges) - 1)
            if edges[i + 1] > edges[i]]
    pts.update(x for x in mids if 0.0 <= x < 1.0)
    pts.add(math.nextafter(1.0, 0.0))
    pts.add(0.0)
    lo = np.floor(nw - tau)
    hi = np.ceil(nw + tau)
    detail = {"n": n, "w": w.tolist()}

    def validate(idx, u0):
        if idx.shape != (n,):
            raise Violation(f"systematic_resample({n}, w) returned shape {idx.shape} at u0={u0!r}",
                            sig={"kind": "length"}, detail=detail)
        if idx.min() < 0 or idx.max() >= m:
            raise Violation(f"index out of range [{idx.min()},{idx.max()}] for len(w)={m} at u0={u0!r}",
                            sig={"kind": "range"}, detail=detail)
        if np.any(np.diff(idx) < 0):
            raise Violation(f"indices not non-decreasing at u0={u0!r}", sig={"kind": "order"}, detail=detail)
        cnt = np.bincount(idx, minlength=m)
        bad = (cnt < lo) | (cnt > hi)
        if np.any(bad):
            k = int(np.flatnonzero(bad)[0])
            raise Violation(
                f"copies of index {k} = {cnt[k]} not in floor/ceil of n*w = {nw[k]!r} (tau={tau:.3g}) at u0={u0!r}",
                sig={"kind": "floor-ceil"}, detail=detail)
        zero_sel = (w == 0) & (cnt > 0)
        # the comb position (u0+0)/n == 0.0 is the breakpoint c=0 itself: either neighbour is accepted there
        if np.any(zero_sel) and not (isinstance(u0, float) and u0 / n == 0.0 and w[0] == 0 and cnt[0] == 1 and zero_sel.sum() == 1):
            k = int(np.flatnonzero(zero_sel)[0])
            raise Violation(f"zero-weight index {k} selected {cnt[k]} times at u0={u0!r}",
                            sig={"kind": "zero-weight-selected"}, detail=detail)
        return cnt

    for u0 in sorted(pts):
        try:
            idx = call_syst(n, w, u0)
        except HarnessError:
            raise
        except Exception as e:  # noqa
            raise Violation(
                f"systematic_resample({n}, w[{m}]) raised {type(e).__name__}: {e} at u0={u0!r} (sum(w)-1={delta:.3g})",
                sig={"kind": "exception", "exc": type(e).__name__}, detail=detail) from e
        validate(idx, u0)
    # the routine's own random_state argument (not scripted): whatever offset it draws, the result must obey the same laws
    from tempest.tools import systematic_resample as _sr

    st0 = np.random.get_state()
    try:
        for rs in (case["n"] * 7 + 1, 12345 + m):
            idx = np.asarray(lib_call(_sr, n, _RAW.get(id(w), w).copy(), random_state=int(rs), what="systematic_resample(random_state=...)"))
            validate(idx, f"<drawn with random_state={rs}>")
            idx2 = np.asarray(_sr(n, _RAW.get(id(w), w).copy(), random_state=int(rs)))
            if not np.array_equal(idx, idx2):
                raise Violation(f"systematic_resample(random_state={rs}) is not reproducible", sig={"kind": "random-state"}, detail=detail)
    finally:
        np.random.set_state(st0)
    # exact unbiasedness: integrate the (piecewise constant) counts over u0
    expc = np.zeros(m)
    for i in range(len(edges) - 1):
        L = edges[i + 1] - edges[i]
        if L <= 0:
            continue
        mid = min((edges[i] + edges[i + 1]) / 2, math.nextafter(1.0, 0.0))
        expc += L * np.bincount(call_syst(n, w, mid), minlength=m)
    err = np.abs(expc - nw)
    if err.max() > tau:
        k = int(np.argmax(err))
        raise Violation(
            f"E[copies of index {k}] = {expc[k]!r} but n*w = {nw[k]!r} (|diff|={err[k]:.3g} > tau={tau:.3g})",
            sig={"kind": "biased"}, detail=detail)
    _RAW.clear()
    npos = int(np.sum(w > 0))
    classes = [f"delta:{case['delta_kind']}", f"kind:{case['kind']}"]
    if w[-1] == 0:
        classes.append("trailing-zero")
    if w[0] == 0:
        classes.append("leading-zero")
    classes.append("offsets:%d" % (10 ** int(math.log10(max(1, len(pts))))))
    return {"nontrivial": npos >= 2 and n >= 2, "classes": classes,
            "sample": {"n": n, "m": m, "kind": case["kind"], "delta": delta, "offsets_tried": len(pts)}}


# ----------------------------------------------------------------------------- Resampler / posterior


@st.composite
def resampler_cases(draw):
    return {
        "scheme": draw(st.sampled_from(["mult", "syst"])),
        "blobs": draw(st.booleans()),
        "d": draw(st.integers(1, 3)),
        "n_particles": draw(st.integers(1, 40)),
        "batches": draw(st.lists(st.integers(1, 30), min_size=1, max_size=6)),
        "seed": draw(st.integers(0, 2**31 - 1)),
        "wkind": draw(st.sampled_from(["uniform", "lognormal", "zeros", "one-dominant"])),
        "u0": draw(st.one_of(st.floats(0.0, 1.0, exclude_max=True), st.just(math.nextafter(1.0, 0.0)), st.just(0.0))),
        # with clustering on, the resampler also carries a fitted clusterer (two well separated clusters of unequal mass in the
        # second coordinate): the draw must still follow the weights it was given, nothing else
        "clustered": draw(st.booleans()),
    }


def _history(case):
    from tempest.state_manager import StateManager

    rng = np.random.default_rng(case["seed"])
    d = case["d"]
    sm = StateManager(d)
    N = sum(case["batches"])
    tag = 0
    for t, nt in enumerate(case["batches"]):
        ids = np.arange(tag, tag + nt)
        tag += nt
        u = rng.random((nt, d))
        u[:, 0] = (ids + 0.5) / N  # the row's own index, recoverable from u
        if case.get("clustered") and d >= 2:
            u[:, 1] = np.where(ids % 4 == 0, 0.8, 0.2) + 0.02 * (u[:, 1] - 0.5)
        x = 3.0 * u - 1.0
        logl = -(ids.astype(float) + 0.25)
        cur = dict(u=u, x=x, logl=logl, beta=min(1.0, 0.1 * (t + 1)), logz=0.0, iter=t + 1, calls=0,
                   steps=1, acceptance=1.0, efficiency=1.0, ess=1.0)
        if case["blobs"]:
            cur["blobs"] = 7.0 * ids.astype(float) + 1.0
        sm.update_current(cur)
        sm.commit_current_to_history()
    return sm, N, rng


def _weights(case, N, rng):
    k = case["wkind"]
    if k == "uniform":
        w = np.ones(N)
    elif k == "lognormal":
        w = np.exp(rng.normal(0, 5, N))
    elif k == "zeros":
        w = rng.random(N)
        w[rng.random(N) < 0.5] = 0
    else:
        w = np.full(N, 1e-12)
        w[int(rng.integers(0, N))] = 1.0
    if w.sum() <= 0:
        w[0] = 1.0
    return w / w.sum()


def execute_resampler(case):
    from tempest.steps.resample import Resampler

    sm, N, rng = _history(case)
    w = _weights(case, N, rng)
    n = case["n_particles"]
    clusterer, clustering = None, False
    if case.get("clustered") and case["d"] >= 2 and N >= 12:
        from tempest.cluster import HierarchicalGaussianMixture

        clusterer = HierarchicalGaussianMixture(n_init=1, normalize=False)
        np.random.seed(case["seed"] % (2**31))
        lib_call(clusterer.fit, sm.get_history("u", flat=True), None, what="HierarchicalGaussianMixture.fit")
        clustering = True
    rs = Resampler(sm, n, resample=case["scheme"], clusterer=clusterer, clustering=clustering, have_blobs=case["blobs"])
    np.random.seed(case["seed"] % (2**31))
    if case["scheme"] == "syst":
        with scripted_uniform(case["u0"]) as calls:
            lib_call(rs.run, w.copy(), what="Resampler.run(syst)")
        need_calls(calls, "Resampler.run(syst)")
    else:
        lib_call(rs.run, w.copy(), what="Resampler.run(mult)")
    cur = sm.get_current()
    u, x, logl = cur["u"], cur["x"], cur["logl"]
    if u is None or len(u) != n or len(x) != n or len(logl) != n:
        raise Violation(f"Resampler.run({case['scheme']}) did not produce {n} particles: "
                        f"{None if u is None else len(u)}", sig={"kind": "length"})
    idx = np.rint(u[:, 0] * N - 0.5).astype(int)
    if idx.min() < 0 or idx.max() >= N or not np.allclose((idx + 0.5) / N, u[:, 0], rtol=0, atol=1e-12):
        raise Violation("resampled u rows are not rows of the history", sig={"kind": "range"})
    at_zero = case["scheme"] == "syst" and case["u0"] / n == 0.0
    if np.any(w[idx] == 0) and not (at_zero and w[0] == 0 and np.sum(w[idx] == 0) == 1 and idx[0] == 0):
        raise Violation("Resampler.run selected a zero-weight history row", sig={"kind": "zero-weight-selected"})
    hu = sm.get_history("u", flat=True)
    if not (np.array_equal(u, hu[idx]) and np.array_equal(x, 3.0 * hu[idx] - 1.0)
            and np.array_equal(logl, -(idx.astype(float) + 0.25))):
        raise Violation("resampled (u,x,logl) rows do not come from one history row each", sig={"kind": "record"})
    if case["blobs"]:
        b = cur["blobs"]
        if b is None or len(b) != n or not np.array_equal(np.asarray(b, dtype=float), 7.0 * idx + 1.0):
            raise Violation("resampled blobs do not belong to the resampled rows", sig={"kind": "record"})
    if case["scheme"] == "syst":
        cnt = np.bincount(idx, minlength=N)
        nw = n * w
        if np.any(cnt < np.floor(nw - 1e-9)) or np.any(cnt > np.ceil(nw + 1e-9)):
            raise Violation("systematic Resampler.run: copies not floor/ceil of n*w", sig={"kind": "floor-ceil"})
    return {"nontrivial": N >= 2 and n >= 2 and int(np.sum(w > 0)) >= 2,
            "classes": [case["scheme"], "blobs" if case["blobs"] else "noblobs", "w:" + case["wkind"],
                        "clusterer:K=%d" % int(getattr(clusterer, "n_clusters_", 0)) if clustering else "no-clusterer"]}


# ----------------------------------------------------------------------------- multinomial unbiasedness (STAT)


class MultUnbiased:
    name = "mult_unbiased"

    def n_tasks(self, tier, seed):
        return 4 if tier == "quick" else 16

    @staticmethod
    def _zmax(seed, R, scheme="mult"):
        from tempest.steps.resample import Resampler

        case = {"scheme": scheme, "blobs": False, "d": 1, "n_particles": 16, "batches": [5, 9, 6], "seed": seed,
                "wkind": ["lognormal", "zeros", "uniform", "one-dominant"][seed % 3], "u0": 0.0}
        sm, N, rng = _history(case)
        w = _weights(case, N, rng)
        n = 16
        rs = Resampler(sm, n, resample=scheme, clusterer=None, clustering=False, have_blobs=False)
        np.random.seed((seed * 7919 + 13) % (2**31))
        cnt = np.zeros(N)
        for _ in range(R):
            rs.run(w.copy())
            idx = np.rint(sm.get_current("u")[:, 0] * N - 0.5).astype(int)
            cnt += np.bincount(idx, minlength=N)
        e = R * n * w
        keep = e >= 25
        z = (cnt[keep] - e[keep]) / np.sqrt(R * n * w[keep] * (1 - w[keep]) + 1e-300)
        zero_sel = float(cnt[w == 0].sum())
        return (float(np.max(np.abs(z))) if keep.any() else 0.0), int(keep.sum()), zero_sel, case

    def execute(self, case):
        zmax, k, zero_sel, _ = self._zmax(case["seed"], case["R"])
        thr = stats.norm.isf(1e-4 / max(1, k) / 2)
        if zero_sel > 0:
            raise Violation("multinomial Resampler.run selected zero-weight rows", sig={"kind": "zero-weight-selected"})
        if zmax > thr:
            raise Violation(f"multinomial resampling biased: max |z| = {zmax:.2f} over {k} indices (R={case['R']})",
                            sig={"kind": "biased-mult"})
        return {}

    def run_task(self, pid, tier, seed, shard):
        rec = Recorder(pid, tier, seed)
        R = 3000 if tier == "quick" else 20000
        s1 = seed * 1000 + shard
        zmax, k, zero_sel, case = self._zmax(s1, R)
        thr1 = stats.norm.isf(1e-6 / max(1, k) / 2)
        flagged = zmax > thr1 or zero_sel > 0
        if flagged:  # stage 2: fresh seeds, twice the draws
            c2 = {"seed": s1 + 500009, "R": 2 * R}
            try:
                self.execute(c2)
            except Violation as v:
                rec.violation(self.name, v, c2)
        rec.record(self.name, {"seed": s1, "R": R}, nontrivial=k >= 2, classes=["w:" + case["wkind"]],
                   sample={"seed": s1, "R": R, "max_abs_z": round(zmax, 3), "indices_tested": k})
        return rec.export()


CHECKS = [
    Check("syst_exhaustive", nw_cases, execute_nw, n={"quick": 3200, "thorough": 40000},
          shards={"quick": 16, "thorough": 16}),
    Check("resampler", resampler_cases, execute_resampler, n={"quick": 3200, "thorough": 40000},
          shards={"quick": 8, "thorough": 16}),
    MultUnbiased(),
]
