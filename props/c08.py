"""C08 - checkpoints restore exactly, resume continues the run, saves are crash-safe.

roundtrip_resume: every checkpoint a generated run writes is (1) loaded into a freshly constructed sampler and compared bit for bit
  with a snapshot taken at the moment of the save, (2) resumed from on another fresh sampler: prefix bit-identical, iteration numbers
  contiguous, calls = restored + newly counted, beta monotone, C12 postconditions at the end; (4) saving works in every configuration
  (pool objects, integer pools, blobs, clustering).
crash: the save runs in a forked child that really dies before/after every IO call it makes and at byte offsets inside every
  write; afterwards the final name is absent or holds a complete loadable checkpoint equal to the old or the new state.
"""
import glob
import os

import numpy as np
from hypothesis import strategies as st

from vlib.core import HarnessError, Recorder, Violation, lib_call
from vlib.crash import run_in_child
from vlib.hypo import Check, guarded
from vlib.refs import ess_from_logw, mis_logw
from vlib.runs import core_of, history_snapshot, make_sampler, quiet, scratch_dir, snapshots_equal, wrap_method
from vlib.targets import Target, simple_target_spec

PID = "C08"
LEVEL = "fault_enumeration"
RULE = (
    "roundtrip_resume: Hypothesis draws configurations {clustering, blobs/vector/scalar, pool in {None, pool-like object, 2}, kernel, resampler, d} x "
    "save_every in {1,2,3} x seed; EVERY checkpoint of the run (all indices k and the final one) is loaded and resumed. "
    "crash: for generated sampler states the save is executed in a forked child once per crash point: before and after every IO call "
    "(enumerated exhaustively from a dry run) and at byte offsets {1, half, last} inside every write, in two scenarios (final name absent / "
    "holding an older complete checkpoint). Non-trivial: checkpoint taken at beta>0 with >=3 batches; crash point strictly inside a payload write. "
    "distinct = (case, checkpoint) resp. (case, scenario, crash point)."
)
ASSUMPTIONS = [
    "process death, not power loss: bytes handed to write() before the crash reach the file, later ones do not; fsync durability is not observable from user space",
    "the save routine performs its IO through open()/io.open, file.write/flush, os.fsync, os.replace/os.rename (what is wrapped in the child)",
    "leftover temporary files after a crash are allowed; only the checkpoint's final name is judged",
]
KEYS = ("u", "x", "logl", "blobs", "assignments", "beta", "logz", "calls", "iter", "ess", "steps", "acceptance", "efficiency")


@st.composite
def rr_cases(draw):
    mode = draw(st.sampled_from(["vector", "scalar", "blobs"]))
    pool = draw(st.sampled_from([None, None, "permuting", 2])) if mode != "vector" else None
    return {"kernel": draw(st.sampled_from(["tpcn", "rwm"])), "resample": draw(st.sampled_from(["mult", "syst"])),
            "clustering": draw(st.booleans()), "mode": mode, "pool": pool, "d": draw(st.integers(1, 3)),
            "save_every": draw(st.sampled_from([1, 2, 3])), "seed": draw(st.integers(0, 2**31 - 2)),
            "random_state": draw(st.one_of(st.none(), st.integers(0, 10**6)))}


def build(case, outdir):
    t = Target.from_spec(simple_target_spec(np.random.default_rng(case["seed"]), case["d"], case["mode"]))
    s = make_sampler(t, dict(sample=case["kernel"], resample=case["resample"], clustering=case["clustering"], n_particles=16,
                             pool=case["pool"], random_state=case["random_state"]), output_dir=outdir)
    return s, t


def load_file(path):
    import dill

    with open(path, "rb") as f:
        return dill.load(f)


def exec_rr(case):
    n_total = 64
    with scratch_dir() as od:
        np.random.seed(case["seed"])
        s, t = build(case, od)
        core = core_of(s)
        snaps = {}
        if not hasattr(core, "save_sampler_state"):
            raise HarnessError("SamplerCore.save_sampler_state missing: observation point missing")
        wrap_method(core, "save_sampler_state", before=lambda path, *a, **k: snaps.__setitem__(str(path), history_snapshot(core.state)))
        with quiet():
            lib_call(s.run, n_total=n_total, progress=False, save_every=case["save_every"],
                     what=f"Sampler.run(save_every={case['save_every']}, pool={case['pool']!r})")
        files = sorted(snaps)
        if not files or not any(f.endswith("_final.state") for f in files):
            raise Violation(f"run(save_every={case['save_every']}) wrote no final checkpoint (files: {[os.path.basename(f) for f in files]})",
                            sig={"kind": "no-checkpoint"})
        n_ck, nontrivial = 0, 0
        for f in files:
            snap = snaps[f]
            k0 = len(snap["history"]["beta"])
            name = os.path.basename(f)
            if not os.path.exists(f):
                raise Violation(f"checkpoint {name} was not written", sig={"kind": "no-checkpoint"})
            # (1) round trip into a fresh sampler
            s2, _ = build(case, od)
            with quiet():
                lib_call(s2.load_state, f, what="Sampler.load_state")
            diff = snapshots_equal(snap, history_snapshot(s2.state), keys=KEYS)
            if diff is not None:
                raise Violation(f"checkpoint {name} (iteration {k0}) loaded into a fresh sampler does not restore the saved state: {diff}",
                                sig={"kind": "roundtrip"})
            n_ck += 1
            if name.endswith("_final.state"):
                continue
            # (2) resume on another fresh sampler
            s3, t3 = build(case, od)
            np.random.seed(case["seed"] + 1)
            with quiet():
                lib_call(s3.run, n_total=n_total, progress=False, resume_state_path=f, what="Sampler.run(resume_state_path=...)")
            st3 = s3.state
            T = st3.get_history_length()
            after = history_snapshot(st3)
            for key in KEYS:
                if key not in snap["history"]:
                    continue
                pre = snap["history"][key]
                got = after["history"].get(key, [])
                if len(got) < len(pre) or any(not np.array_equal(np.asarray(a), np.asarray(b)) for a, b in zip(pre, got)):
                    raise Violation(f"resume from {name}: the restored history prefix of '{key}' is not bit-identical after the run "
                                    f"({len(pre)} batches saved, {len(got)} now)", sig={"kind": "resume-prefix"})
            iters = [int(i) for i in st3.get_history("iter")]
            if iters != list(range(1, T + 1)) or T < k0:
                raise Violation(f"resume from {name} (iteration {k0}): iteration numbers are {iters}", sig={"kind": "resume-iter"})
            calls = [int(c) for c in st3.get_history("calls")]
            restored_calls = int(snap["current"]["calls"])
            if any(b < a for a, b in zip(calls, calls[1:])) or int(st3.get_current("calls")) != restored_calls + t3.n_points and case["pool"] != 2:
                raise Violation(f"resume from {name}: call counter does not continue (restored {restored_calls}, evaluated since "
                                f"{t3.n_points}, reported {st3.get_current('calls')}, history {calls})", sig={"kind": "resume-calls"})
            betas = [float(b) for b in st3.get_history("beta")]
            if any(b < a for a, b in zip(betas, betas[1:])) or (T > k0 and betas[k0] < float(snap["current"]["beta"])):
                raise Violation(f"resume from {name}: temperature schedule not monotone across the resume: {betas}", sig={"kind": "resume-beta"})
            L = [np.asarray(st3.get_history("logl", index=i), dtype=float) for i in range(T)]
            lw, lz, _ = mis_logw(L, betas, [float(z) for z in st3.get_history("logz")], 1.0)
            if abs(1 - betas[-1]) >= 1e-4 or ess_from_logw(lw) < n_total * (1 - 1e-9) or abs(float(s3.evidence()[0]) - float(lz)) > 1e-9 * max(1, abs(float(lz))):
                raise Violation(f"resume from {name}: run postconditions violated (beta {betas[-1]!r}, ESS {ess_from_logw(lw):.2f} vs n_total "
                                f"{n_total}, evidence {s3.evidence()[0]!r} vs reference {float(lz)!r})", sig={"kind": "resume-postconditions"})
            if float(snap["current"]["beta"]) > 0 and k0 >= 3:
                nontrivial += 1
        return {"nontrivial": nontrivial > 0,
                "classes": ["pool:%s" % case["pool"], "mode:" + case["mode"], "clustering" if case["clustering"] else "noclustering",
                            "save_every=%d" % case["save_every"], "checkpoints=%d" % min(n_ck, 9)],
                "sample": {"case": case, "checkpoints": [os.path.basename(f) for f in files]}}


# ----------------------------------------------------------------------------- crash points


class CrashPoints:
    name = "crash"
    CONFIGS = [
        {"kernel": "tpcn", "resample": "mult", "clustering": False, "mode": "vector", "pool": None, "d": 2, "random_state": None},
        {"kernel": "rwm", "resample": "syst", "clustering": True, "mode": "blobs", "pool": None, "d": 1, "random_state": 5},
        {"kernel": "tpcn", "resample": "mult", "clustering": False, "mode": "scalar", "pool": "permuting", "d": 2, "random_state": None},
        {"kernel": "rwm", "resample": "mult", "clustering": True, "mode": "vector", "pool": None, "d": 3, "random_state": 11},
    ]

    def n_tasks(self, tier, seed):
        return 2 * (3 if tier == "quick" else 6)  # (config, scenario); the last third targets StateManager.save_state

    def _state(self, cfg, seed, od):
        case = {k: v for k, v in dict(cfg, seed=seed).items() if k != "statemanager"}
        np.random.seed(seed)
        s, t = build(case, od)
        s._core._initialize_fresh()
        with quiet():
            for _ in range(4):
                s.sample()
        return s

    def execute(self, case):
        """case = {cfg, seed, scenario, crash: [event, how] or None}"""
        cfg, seed, scenario, crash = case["cfg"], int(case["seed"]), case["scenario"], case["crash"]
        with scratch_dir() as od:
            s = self._state(cfg, seed, od)
            path = os.path.join(od, "ck.state")
            old = None
            if scenario == "existing":
                with quiet():
                    lib_call(s.state.save_state if cfg.get("statemanager") else s.save_state, path, what="save_state")
                old = history_snapshot(s.state)
                with quiet():
                    s.sample()
            new = history_snapshot(s.state)

            use_sm = bool(cfg.get("statemanager"))

            def do_save():
                with quiet():
                    (s.state.save_state if use_sm else s.save_state)(path)

            code, events = run_in_child(do_save, None if crash is None else (int(crash[0]), crash[1]))
            if crash is None:
                if code != 0:
                    why = [k for _, k, _ in events if k.startswith("EXC:")]
                    raise Violation(f"save_state failed for configuration {cfg} ({why[0] if why else 'exit %d' % code})",
                                    sig={"kind": "save-failed", "exc": why[0].split(':')[1] if why else None})
                return {"events": events}
            if code not in (77, 0):
                raise HarnessError(f"crash child exited with {code}")
            if not os.path.exists(path):
                if scenario == "existing":
                    raise Violation(f"crash at IO event {crash}: the older complete checkpoint under the final name is gone",
                                    sig={"kind": "crash-lost-old"})
                return {"outcome": "absent"}
            try:
                d = load_file(path)
                got = {"current": d["_current"], "history": d["_history"]}
            except Exception as e:  # noqa
                raise Violation(f"crash at IO event {crash} ({scenario}): the file under the checkpoint's final name is truncated/unloadable "
                                f"({type(e).__name__}: {str(e)[:80]}; {os.path.getsize(path)} bytes)", sig={"kind": "crash-unloadable"})
            if snapshots_equal(new, got, keys=KEYS) is None:
                return {"outcome": "new"}
            if old is not None and snapshots_equal(old, got, keys=KEYS) is None:
                return {"outcome": "old"}
            raise Violation(f"crash at IO event {crash} ({scenario}): the final name holds a loadable file that equals neither the old nor "
                            f"the new complete checkpoint", sig={"kind": "crash-mixed"})

    def run_task(self, pid, tier, seed, shard):
        rec = Recorder(pid, tier, seed)
        cfg = dict(self.CONFIGS[(shard // 2 + seed) % len(self.CONFIGS)])
        if shard // 2 >= self.n_tasks(tier, seed) // 2 * 2 // 3:
            cfg["statemanager"] = True  # the state manager's own save_state (documented as atomic)
        scenario = ["absent", "existing"][shard % 2]
        base = {"cfg": cfg, "seed": (seed * 7919 + shard) % (2**31 - 1), "scenario": scenario}
        try:
            dry = guarded(self.execute, dict(base, crash=None))
        except Violation as v:
            f = rec.classify(self.name, v)
            if f is not None:
                rec.known(f, self.name, v)
            else:
                rec.violation(self.name, v, dict(base, crash=None))
            return rec.export()
        events = [e for e in dry["events"] if e[0] >= 0]
        points = []
        for i, kind, n in events:
            points.append([i, "before"])
            points.append([i, "after"])
            if kind == "write" and n > 1:
                offs = sorted({1, n // 2, n - 1})
                if tier == "thorough":
                    offs = sorted(set(offs) | {int(x) for x in np.random.default_rng(seed + i).integers(1, n, 17)})
                points.extend([i, o] for o in offs)
        first_violation = None
        for p in points:
            case = dict(base, crash=p)
            try:
                info = guarded(self.execute, case)
                inside = isinstance(p[1], int)
                rec.record(self.name, case, nontrivial=inside, classes=["scenario:" + scenario, "outcome:" + info["outcome"],
                                                                         "inside-write" if inside else "at-call-boundary"],
                           sample={"scenario": scenario, "crash_point": p, "events": [f"{k}:{n}" for _, k, n in events][:12], "outcome": info["outcome"]})
            except Violation as v:
                f = rec.classify(self.name, v)
                if f is not None:
                    rec.known(f, self.name, v)
                elif first_violation is None:
                    first_violation = (v, case)
                rec.record(self.name, case, False, ["violation"])
        if first_violation is not None:
            rec.violation(self.name, *first_violation)
        rec.extra["crash_io_events"] = [f"{k}:{n}" for _, k, n in events]
        return rec.export()


CHECKS = [
    Check("roundtrip_resume", rr_cases, exec_rr, n={"quick": 24, "thorough": 320}, shards={"quick": 12, "thorough": 16},
          shrink={"quick": False, "thorough": True}),
    CrashPoints(),
]
