"""C08 - checkpoints restore exactly, resume continues the run, saves are crash-safe.

roundtrip_resume: every checkpoint a generated run writes is (1) loaded into a freshly constructed sampler and compared bit for bit
  with a snapshot taken at the moment of the save, (2) resumed from on another fresh sampler: prefix bit-identical, iteration numbers
  contiguous, calls = restored + newly counted, beta monotone, C12 postconditions at the end; (4) saving works in every configuration
  (pool objects, integer pools, blobs, clustering).
crash: the save runs in a forked child that really dies before/after every IO call it makes and at byte offsets inside every
  write; afterwards the final name is absent or holds a complete loadable checkpoint equal to the old or the new state.
"""
import glob
import os
import shutil

import numpy as np
from hypothesis import strategies as st

from vlib.core import HarnessError, Recorder, Violation, lib_call
from vlib.crash import run_in_child
from vlib.hypo import Check, guarded
from vlib.refs import ess_from_logw, mis_logw
from vlib.runs import core_of, history_snapshot, make_sampler, quiet, scratch_dir, snapshots_equal, wrap_method
from vlib.targets import Target, simple_target_spec

PID = "C08"
LEVEL = "fault_enumeration"
RULE = (
    "roundtrip_resume: Hypothesis draws configurations {clustering, blobs/vector/scalar, pool in {None, pool-like object, 2}, kernel, resampler, d} x "
    "save_every in {1,2,3} x seed; EVERY checkpoint of the run (all indices k and the final one) is loaded and resumed; in half of the cases the "
    "sampler object then lives on: a sibling run's checkpoint is loaded into it (it must then equal a fresh sampler that loaded the same file - "
    "state, posterior(), next sample()), and it is rewound to one of its own checkpoints and writes checkpoints again. "
    "crash: for generated sampler states the save is executed in a forked child once per crash point: before and after every IO call "
    "(enumerated exhaustively from a dry run) and at byte offsets {1, half, last} inside every write, in two scenarios (final name absent / "
    "holding an older complete checkpoint). Non-trivial: checkpoint taken at beta>0 with >=3 batches; crash point strictly inside a payload write. "
    "distinct = (case, checkpoint) resp. (case, scenario, crash point)."
)
ASSUMPTIONS = [
    "process death, not power loss: bytes handed to write() before the crash reach the file, later ones do not; fsync durability is not observable from user space",
    "the save routine performs its IO through open()/io.open, file.write/flush, os.fsync, os.replace/os.rename (what is wrapped in the child)",
    "leftover temporary files after a crash are allowed; only the checkpoint's final name is judged",
]
KEYS = ("u", "x", "logl", "blobs", "assignments", "beta", "logz", "calls", "iter", "ess", "steps", "acceptance", "efficiency")


@st.composite
def rr_cases(draw):
    mode = draw(st.sampled_from(["vector", "scalar", "blobs"]))
    pool = draw(st.sampled_from([None, None, "permuting", 2])) if mode != "vector" else None
    return {"kernel": draw(st.sampled_from(["tpcn", "rwm"])), "resample": draw(st.sampled_from(["mult", "syst"])),
            "clustering": draw(st.booleans()), "mode": mode, "pool": pool, "d": draw(st.integers(1, 3)),
            "save_every": draw(st.sampled_from([1, 2, 3])), "seed": draw(st.integers(0, 2**31 - 2)),
            "random_state": draw(st.one_of(st.none(), st.integers(0, 10**6))), "resume_mult": draw(st.sampled_from([1, 1, 2, 3])),
            "resume_particles": draw(st.sampled_from([16, 16, 24, 40])),
            # batches of one or two particles are legal (arrays of size one must survive the round trip as arrays)
            "n_particles": draw(st.sampled_from([16, 16, 16, 1, 2]))}


def build(case, outdir, n_particles=None):
    n_particles = int(n_particles or case.get("n_particles", 16))
    t = Target.from_spec(simple_target_spec(np.random.default_rng(case["seed"]), case["d"], case["mode"]))
    s = make_sampler(t, dict(sample=case["kernel"], resample=case["resample"], clustering=case["clustering"], n_particles=n_particles,
                             pool=case["pool"], random_state=case["random_state"]), output_dir=outdir)
    return s, t


def load_file(path):
    import dill

    with open(path, "rb") as f:
        return dill.load(f)


def n_total_for(case):
    N = int(case.get("n_particles", 16))
    return 64 if N >= 16 else 6 * N  # tiny batches: keep the number of iterations (and checkpoints) comparable


def exec_rr(case):
    n_total = n_total_for(case)
    with scratch_dir() as od:
        np.random.seed(case["seed"])
        s, t = build(case, od)
        core = core_of(s)
        snaps = {}
        if not hasattr(core, "save_sampler_state"):
            raise HarnessError("SamplerCore.save_sampler_state missing: observation point missing")
        wrap_method(core, "save_sampler_state", before=lambda path, *a, **k: snaps.__setitem__(str(path), history_snapshot(core.state)))
        with quiet():
            lib_call(s.run, n_total=n_total, progress=False, save_every=case["save_every"],
                     what=f"Sampler.run(save_every={case['save_every']}, pool={case['pool']!r})")
        files = sorted(snaps)
        if not files or not any(f.endswith("_final.state") for f in files):
            raise Violation(f"run(save_every={case['save_every']}) wrote no final checkpoint (files: {[os.path.basename(f) for f in files]})",
                            sig={"kind": "no-checkpoint"})
        n_ck, nontrivial = 0, 0
        for f in files:
            snap = snaps[f]
            k0 = len(snap["history"]["beta"])
            name = os.path.basename(f)
            if not os.path.exists(f):
                raise Violation(f"checkpoint {name} was not written", sig={"kind": "no-checkpoint"})
            # (1) round trip into a fresh sampler
            s2, _ = build(case, od)
            with quiet():
                lib_call(s2.load_state, f, what="Sampler.load_state")
            diff = snapshots_equal(snap, history_snapshot(s2.state), keys=KEYS)
            if diff is not None:
                raise Violation(f"checkpoint {name} (iteration {k0}) loaded into a fresh sampler does not restore the saved state: {diff}",
                                sig={"kind": "roundtrip"})
            n_ck += 1
            # (2) resume on another fresh sampler - also from the final checkpoint (a resume that may have nothing left to do), possibly
            # with another number of particles per iteration (the weights are defined for unequal batch sizes)
            is_final = name.endswith("_final.state")
            s3, t3 = build(case, od, n_particles=int(case.get("resume_particles", 16)) if not is_final else None)
            np.random.seed(case["seed"] + 1)
            n_total_res = n_total * (int(case.get("resume_mult", 1)) if not is_final else 1)  # the resumed run may ask for more samples
            with quiet():
                lib_call(s3.run, n_total=n_total_res, progress=False, resume_state_path=f, what="Sampler.run(resume_state_path=...)")
            st3 = s3.state
            T = st3.get_history_length()
            after = history_snapshot(st3)
            for key in KEYS:
                if key not in snap["history"]:
                    continue
                pre = snap["history"][key]
                got = after["history"].get(key, [])
                if len(got) < len(pre) or any(not np.array_equal(np.asarray(a), np.asarray(b)) for a, b in zip(pre, got)):
                    raise Violation(f"resume from {name}: the restored history prefix of '{key}' is not bit-identical after the run "
                                    f"({len(pre)} batches saved, {len(got)} now)", sig={"kind": "resume-prefix"})
            iters = [int(i) for i in st3.get_history("iter")]
            if iters != list(range(1, T + 1)) or T < k0:
                raise Violation(f"resume from {name} (iteration {k0}): iteration numbers are {iters}", sig={"kind": "resume-iter"})
            calls = [int(c) for c in st3.get_history("calls")]
            restored_calls = int(snap["current"]["calls"])
            if any(b < a for a, b in zip(calls, calls[1:])) or int(st3.get_current("calls")) != restored_calls + t3.n_points and case["pool"] != 2:
                raise Violation(f"resume from {name}: call counter does not continue (restored {restored_calls}, evaluated since "
                                f"{t3.n_points}, reported {st3.get_current('calls')}, history {calls})", sig={"kind": "resume-calls"})
            betas = [float(b) for b in st3.get_history("beta")]
            if any(b < a for a, b in zip(betas, betas[1:])) or (T > k0 and betas[k0] < float(snap["current"]["beta"])):
                raise Violation(f"resume from {name}: temperature schedule not monotone across the resume: {betas}", sig={"kind": "resume-beta"})
            L = [np.asarray(st3.get_history("logl", index=i), dtype=float) for i in range(T)]
            lw, lz, _ = mis_logw(L, betas, [float(z) for z in st3.get_history("logz")], 1.0)
            if abs(1 - betas[-1]) >= 1e-4 or ess_from_logw(lw) < n_total_res * (1 - 1e-9) or abs(float(s3.evidence()[0]) - float(lz)) > 1e-9 * max(1, abs(float(lz))):
                raise Violation(f"resume from {name}: run postconditions violated (beta {betas[-1]!r}, ESS {ess_from_logw(lw):.2f} vs n_total "
                                f"{n_total_res}, evidence {s3.evidence()[0]!r} vs reference {float(lz)!r})", sig={"kind": "resume-postconditions"})
            if float(snap["current"]["beta"]) > 0 and k0 >= 3:
                nontrivial += 1
        extra_classes = []
        if case["seed"] % 2 == 0:
            second_life(case, s, core, snaps, files, od)
            extra_classes.append("second-life-of-the-same-object")
        return {"nontrivial": nontrivial > 0,
                "classes": ["pool:%s" % case["pool"], "mode:" + case["mode"], "clustering" if case["clustering"] else "noclustering",
                            "save_every=%d" % case["save_every"], "checkpoints=%d" % min(n_ck, 9)] + extra_classes,
                "sample": {"case": case, "checkpoints": [os.path.basename(f) for f in files]}}


def posterior_outputs(s):
    out = []
    for tr in (False, True):
        o = lib_call(s.posterior, trim_importance_weights=tr, return_logw=True, what=f"posterior(trim_importance_weights={tr}, return_logw=True)")
        out.append([np.asarray(a) for a in o])
    return out


def second_life(case, s, core, snaps, files, od):
    """The sampler object that produced the checkpoints lives on: (a) a checkpoint of a SIBLING run (same configuration, other
    seed - so the same extent at the same index) is loaded into it after it has been used (posterior() called, run finished); from
    then on it must be indistinguishable from a fresh sampler that loaded the same file - state, posterior() outputs, and the next
    sample() under the same stream; (b) it is rewound to one of its own earlier checkpoints and runs on, writing checkpoints again:
    each file must restore exactly the state that existed when it was (re)written."""
    with scratch_dir() as od2:
        sib_case = dict(case, random_state=None if case["random_state"] is None else int(case["random_state"]) + 1)
        np.random.seed(case["seed"] + 7)
        b, _ = build(sib_case, od2)
        bcore = core_of(b)
        bsnaps = {}
        wrap_method(bcore, "save_sampler_state", before=lambda path, *a, **k: bsnaps.__setitem__(str(path), history_snapshot(bcore.state)))
        with quiet():
            lib_call(b.run, n_total=n_total_for(case), progress=False, save_every=case["save_every"], what="Sampler.run(save_every=...) [sibling]")
        bfiles = sorted(f for f in bsnaps if os.path.exists(f))
        if not bfiles:
            raise Violation("sibling run wrote no checkpoint", sig={"kind": "no-checkpoint"})
        fb = bfiles[(case["seed"] // 2) % len(bfiles)]
        posterior_outputs(s)  # the used object has answered queries before (whatever it caches is now warm)
        with quiet():
            lib_call(s.load_state, fb, what="Sampler.load_state [into a used sampler]")
        diff = snapshots_equal(bsnaps[fb], history_snapshot(core.state), keys=KEYS)
        if diff is not None:
            raise Violation(f"checkpoint {os.path.basename(fb)} of a sibling run loaded into a sampler that had already run does not restore "
                            f"the saved state: {diff}", sig={"kind": "roundtrip-used-object"})
        fresh, _ = build(case, od2)
        with quiet():
            lib_call(fresh.load_state, fb, what="Sampler.load_state")
        for (tr, a), (_, c) in zip(zip((False, True), posterior_outputs(s)), zip((False, True), posterior_outputs(fresh))):
            if len(a) != len(c) or any(x.shape != y.shape or not np.array_equal(x, y, equal_nan=True) for x, y in zip(a, c)):
                raise Violation(f"after loading {os.path.basename(fb)}, posterior(trim_importance_weights={tr}, return_logw=True) of the sampler "
                                f"that had already run differs from that of a fresh sampler that loaded the same file "
                                f"(shapes {[x.shape for x in a]} vs {[y.shape for y in c]})", sig={"kind": "used-vs-fresh-after-load"})
        if case["pool"] != 2:
            for obj in (s, fresh):
                np.random.seed(case["seed"] + 11)
                with quiet():
                    lib_call(obj.sample, what="Sampler.sample [after load_state]")
            diff = snapshots_equal(history_snapshot(core.state), history_snapshot(fresh.state), keys=KEYS)
            if diff is not None:
                raise Violation(f"after loading {os.path.basename(fb)}, one more sample() under the same stream gives a different state on the "
                                f"sampler that had already run than on a fresh sampler: {diff}", sig={"kind": "used-vs-fresh-after-load"})
    # (b) rewind the same object to one of its own checkpoints and let it write checkpoints again
    own = [f for f in files if not f.endswith("_final.state") and os.path.exists(f)]
    if not own:
        return
    f0 = own[(case["seed"] // 3) % len(own)]
    snaps.clear()
    np.random.seed(case["seed"] + 13)
    with quiet():
        lib_call(s.run, n_total=n_total_for(case), progress=False, resume_state_path=f0, save_every=case["save_every"],
                 what="Sampler.run(resume_state_path=own earlier checkpoint, save_every=...) [same object]")
    for f in sorted(snaps):
        if not os.path.exists(f):
            continue
        s2, _ = build(case, od)
        with quiet():
            lib_call(s2.load_state, f, what="Sampler.load_state")
        diff = snapshots_equal(snaps[f], history_snapshot(s2.state), keys=KEYS)
        if diff is not None:
            raise Violation(f"checkpoint {os.path.basename(f)} written after the same sampler object was rewound to {os.path.basename(f0)} does "
                            f"not restore the state that existed when it was written: {diff}", sig={"kind": "roundtrip-after-rewind"})


# ----------------------------------------------------------------------------- crash points


class CrashPoints:
    name = "crash"
    CONFIGS = [
        {"kernel": "tpcn", "resample": "mult", "clustering": False, "mode": "vector", "pool": None, "d": 2, "random_state": None},
        {"kernel": "rwm", "resample": "syst", "clustering": True, "mode": "blobs", "pool": None, "d": 1, "random_state": 5},
        {"kernel": "tpcn", "resample": "mult", "clustering": False, "mode": "scalar", "pool": "permuting", "d": 2, "random_state": None},
        {"kernel": "rwm", "resample": "mult", "clustering": True, "mode": "vector", "pool": None, "d": 3, "random_state": 11},
        # a realistically sized checkpoint (> 64 KiB: several pickle frames, small trailing writes stay in the user-space buffer)
        {"kernel": "rwm", "resample": "mult", "clustering": False, "mode": "vector", "pool": None, "d": 3, "random_state": None, "big": True},
    ]

    def n_tasks(self, tier, seed):
        return 2 * (4 if tier == "quick" else 8)  # (config, scenario); a third targets StateManager.save_state, the last one is the large checkpoint

    def _state(self, cfg, seed, od):
        case = {k: v for k, v in dict(cfg, seed=seed).items() if k not in ("statemanager", "big")}
        np.random.seed(seed)
        if cfg.get("big"):
            t = Target.from_spec(simple_target_spec(np.random.default_rng(seed), case["d"], case["mode"]))
            s = make_sampler(t, dict(sample=case["kernel"], resample=case["resample"], clustering=False, n_particles=384), output_dir=od)
        else:
            s, t = build(case, od)
        s._core._initialize_fresh()
        with quiet():
            for _ in range(6 if cfg.get("big") else 4):
                s.sample()
        return s

    def prepare(self, cfg, seed, scenario, od):
        """Build the sampler state once: returns (sampler, path, old_snapshot_or_None, new_snapshot, backup_of_old_file_or_None)."""
        s = self._state(cfg, seed, od)
        path = os.path.join(od, "ck.state")
        saver = s.state.save_state if cfg.get("statemanager") else s.save_state
        old, backup = None, None
        if scenario == "existing":
            with quiet():
                lib_call(saver, path, what="save_state")
            old = history_snapshot(s.state)
            backup = path + ".backup-of-old"
            shutil.copy(path, backup)
            with quiet():
                s.sample()
        return s, path, old, history_snapshot(s.state), backup, saver

    def probe(self, prepared, cfg, scenario, crash):
        """Run the save in a forked child that dies at `crash`; judge what is left under the final name."""
        s, path, old, new, backup, saver = prepared
        od = os.path.dirname(path)
        for f in os.listdir(od):  # restore the directory to its pre-save content
            full = os.path.join(od, f)
            if full != backup:
                os.remove(full)
        if backup is not None:
            shutil.copy(backup, path)

        def do_save():
            with quiet():
                saver(path)

        code, events = run_in_child(do_save, None if crash is None else (int(crash[0]), crash[1]))
        if crash is None:
            if code != 0:
                why = [k for _, k, _ in events if k.startswith("EXC:")]
                raise Violation(f"save_state failed for configuration {cfg} ({why[0] if why else 'exit %d' % code})",
                                sig={"kind": "save-failed", "exc": why[0].split(':')[1] if why else None})
            return {"events": events}
        if code not in (77, 0):
            raise HarnessError(f"crash child exited with {code}")
        if not os.path.exists(path):
            if scenario == "existing":
                raise Violation(f"crash at IO event {crash}: the older complete checkpoint under the final name is gone",
                                sig={"kind": "crash-lost-old"})
            return {"outcome": "absent"}
        try:
            d = load_file(path)
            got = {"current": d["_current"], "history": d["_history"]}
        except Exception as e:  # noqa
            raise Violation(f"crash at IO event {crash} ({scenario}): the file under the checkpoint's final name is truncated/unloadable "
                            f"({type(e).__name__}: {str(e)[:80]}; {os.path.getsize(path)} bytes)", sig={"kind": "crash-unloadable"})
        if snapshots_equal(new, got, keys=KEYS) is None:
            return {"outcome": "new"}
        if old is not None and snapshots_equal(old, got, keys=KEYS) is None:
            return {"outcome": "old"}
        raise Violation(f"crash at IO event {crash} ({scenario}): the final name holds a loadable file that equals neither the old nor "
                        f"the new complete checkpoint", sig={"kind": "crash-mixed"})

    def execute(self, case):
        """case = {cfg, seed, scenario, crash: [event, how] or None} (self-contained: used for replays)"""
        with scratch_dir() as od:
            prepared = self.prepare(case["cfg"], int(case["seed"]), case["scenario"], od)
            return self.probe(prepared, case["cfg"], case["scenario"], case["crash"])

    def run_task(self, pid, tier, seed, shard):
        rec = Recorder(pid, tier, seed)
        nt = self.n_tasks(tier, seed) // 2
        if shard // 2 == nt - 1:
            cfg = dict(self.CONFIGS[-1])  # the large checkpoint is part of every run
        else:
            cfg = dict(self.CONFIGS[(shard // 2 + seed) % (len(self.CONFIGS) - 1)])
            if shard // 2 >= (nt - 1) * 2 // 3:
                cfg["statemanager"] = True  # the state manager's own save_state (documented as atomic)
        scenario = ["absent", "existing"][shard % 2]
        base = {"cfg": cfg, "seed": (seed * 7919 + shard) % (2**31 - 1), "scenario": scenario}
        first_violation = None
        with scratch_dir() as od:
            try:
                prepared = self.prepare(cfg, base["seed"], scenario, od)
                dry = self.probe(prepared, cfg, scenario, None)
            except Violation as v:
                f = rec.classify(self.name, v)
                if f is not None:
                    rec.known(f, self.name, v)
                else:
                    rec.violation(self.name, v, dict(base, crash=None))
                return rec.export()
            events = [e for e in dry["events"] if e[0] >= 0]
            points = []
            for i, kind, n in events:
                for how in ("before", "after", "before+flush", "after+flush"):
                    points.append([i, how])
                if kind == "write" and n > 1:
                    offs = sorted({1, n // 2, n - 1})
                    if tier == "thorough":
                        offs = sorted(set(offs) | {int(x) for x in np.random.default_rng(seed + i).integers(1, n, 17)})
                    points.extend([i, o] for o in offs)
            for p in points:
                case = dict(base, crash=p)
                try:
                    info = self.probe(prepared, cfg, scenario, p)
                    inside = isinstance(p[1], int)
                    rec.record(self.name, case, nontrivial=inside, classes=["scenario:" + scenario, "outcome:" + info["outcome"],
                                                                             "inside-write" if inside else "at-call-boundary",
                                                                             "buffers-lost" if p[1] in ("before", "after") else "buffers-flushed"],
                               sample={"scenario": scenario, "crash_point": p, "events": [f"{k}:{n}" for _, k, n in events][:14], "outcome": info["outcome"]})
                except Violation as v:
                    f = rec.classify(self.name, v)
                    if f is not None:
                        rec.known(f, self.name, v)
                    elif first_violation is None:
                        first_violation = (v, case)
                    rec.record(self.name, case, False, ["violation"])
        if first_violation is not None:
            rec.violation(self.name, *first_violation)
        rec.extra["crash_io_events"] = [f"{k}:{n}" for _, k, n in events]
        return rec.export()


CHECKS = [
    Check("roundtrip_resume", rr_cases, exec_rr, n={"quick": 24, "thorough": 320}, shards={"quick": 12, "thorough": 16},
          shrink={"quick": False, "thorough": True}),
    CrashPoints(),
]
