"""C14 - cluster labels and proposal modes stay coherent for every history and cadence.

pools: generated weighted particle pools pushed through the real Trainer.run / Resampler.run (shared clusterer) on a synthetic
       state manager, several iterations with a generated cadence;
runs : generated multimodal sampler runs x cluster_every x n_max_clusters x normalize x split_threshold (x resume from a
       checkpoint), observed by wrapping parallel_mcmc, i.e. exactly what mutation receives.
Oracle at every mutation (resp. after train+resample): every label in [0,K); every referenced mode has a finite mean, a symmetric
scale matrix with positive Cholesky factor and finite dof > 0; same-cluster provenance: the mean of mode r lies in the bounding box
of the pool points the shared clusterer assigns to label r (whenever the trainer had at least one training point of that label);
membership: no active particle carries the label of a cluster it demonstrably does not belong to.
"""
import glob
import os

import numpy as np
from hypothesis import strategies as st

from vlib.core import HarnessError, Violation, lib_call
from vlib.hypo import Check
from vlib.runs import core_of, make_sampler, patched_parallel_mcmc, quiet, scratch_dir, wrap_method
from vlib.targets import Target

PID = "C14"
LEVEL = "exploration"
RULE = (
    "pools: Hypothesis draws (d in 1..3, 2-4 modes with generated separations/widths/weights incl. overlapping and nearly empty ones, "
    "batches x n_particles, log-normal pool weights sigma<=6, cluster_every in {1,2,3,5}, n_max_clusters in {None,1,2,4}, normalize, "
    "split_threshold in {0.3,1,3}, 3-6 iterations). runs: multimodal instrumented targets (2-3 modes, generated separation/width/amplitude) x "
    "the same clustering options x kernel x resume point. Non-trivial = a mutation call (resp. train+resample step) with K>=2 referenced modes; "
    "classes count cadence, caps, non-refit iterations and labels without a training point."
)
ASSUMPTIONS = [
    "the clusterer shared by Trainer and Resampler is reachable as trainer.clusterer; the trimmed training set is recomputed with tools.trim_weights and the trainer's own TRIM_ESS/TRIM_BINS",
    "provenance is asserted against the UNTRIMMED pool points of a label (a superset of any valid trimming), and only for labels that received at least one trimmed training point",
]


def check_modes(ms, labels, where):
    labels = np.asarray(labels)
    K = int(ms.K)
    if labels.size and (labels.min() < 0 or labels.max() >= K or not np.issubdtype(labels.dtype, np.integer)):
        raise Violation(f"{where}: cluster labels {sorted(set(labels.tolist()))} but only K={K} proposal modes exist",
                        sig={"kind": "label-without-mode"})
    d = ms.means.shape[1]
    for r in sorted(set(labels.tolist())):
        mu, C, nu = np.asarray(ms.means[r], dtype=float), np.asarray(ms.covariances[r], dtype=float), float(ms.degrees_of_freedom[r])
        if not np.all(np.isfinite(mu)):
            raise Violation(f"{where}: mode {r} has non-finite mean", sig={"kind": "mode-invalid"})
        if not np.all(np.isfinite(C)) or np.max(np.abs(C - C.T)) > 1e-12 * max(1e-300, np.max(np.abs(C))):
            raise Violation(f"{where}: mode {r} scale matrix non-finite or not symmetric", sig={"kind": "mode-invalid"})
        try:
            Lc = np.linalg.cholesky(C)
            ok = bool(np.all(np.diag(Lc) > 0))
        except np.linalg.LinAlgError:
            ok = False
        if not ok:
            raise Violation(f"{where}: mode {r} scale matrix is not positive definite", sig={"kind": "mode-invalid"})
        if not (np.isfinite(nu) and nu > 0):
            raise Violation(f"{where}: mode {r} has degrees of freedom {nu!r}", sig={"kind": "mode-invalid"})
    return K


def check_provenance(ms, labels, clusterer, pool_u, trained_labels, where, train=None):
    """mean of mode r in the bounding box of the pool points assigned to r (if r had any training point)."""
    if clusterer is None:
        return 0
    pl = np.asarray(clusterer.predict(pool_u))
    n_checked = 0
    for r in sorted(set(np.asarray(labels).tolist())):
        if trained_labels is not None and r not in trained_labels:
            continue  # no training point of that label: any valid fallback is acceptable
        P = pool_u[pl == r]
        if len(P) == 0:
            continue
        lo, hi = P.min(0), P.max(0)
        mu = np.asarray(ms.means[r], dtype=float)
        if np.any(mu < lo - 1e-9) or np.any(mu > hi + 1e-9):
            raise Violation(f"{where}: proposal mode {r} (mean {np.round(mu, 4).tolist()}) was not fitted from the particles of cluster {r} "
                            f"(their bounding box is [{np.round(lo, 4).tolist()}, {np.round(hi, 4).tolist()}])", sig={"kind": "mode-of-other-cluster"})
        # ... and its scale cannot exceed the extent of those particles: the standard deviation of any sample drawn from the points of
        # cluster r is at most the range of their coordinates (a mode fitted with particles of another cluster mixed in is far wider)
        sd = np.sqrt(np.clip(np.diag(np.asarray(ms.covariances[r], dtype=float)), 0.0, None))
        if np.any(sd > (hi - lo) + 1e-9):
            j = int(np.argmax(sd - (hi - lo)))
            raise Violation(f"{where}: proposal mode {r} has standard deviation {sd[j]:.4g} along coordinate {j}, more than the whole extent "
                            f"{hi[j] - lo[j]:.4g} of the particles of cluster {r}: it was not fitted from the particles of that cluster alone",
                            sig={"kind": "mode-of-other-cluster"})
        # ... and its location is where those particles are: along every coordinate within 3 of their own (weighted) standard
        # deviations of their weighted mean. Necessary for any location estimate of that weighted cloud: a (resampled) moment is
        # within sampling error of the mean, a coordinate-wise median - which is what fit_mvstud returns while finding K5 stands -
        # within one standard deviation of it (|median - mean| <= sd for every distribution), a Student-t EM location is a mean
        # reweighted towards the bulk. Judged per coordinate, NOT as a Mahalanobis distance: the coordinate-wise median of a cluster
        # that merges two separated groups lies off their common axis, many Mahalanobis units from the mean (first version of this
        # oracle: false alarm at VERIF_SEED=3, DESIGN 5.4). Only for clusters with enough points and enough effective points.
        # A mode carried over from another clustering, or from the pool of another temperature, sits elsewhere.
        if train is not None:
            ut, wt, lt = train
            sel = lt == r
            d = pool_u.shape[1]
            if sel.sum() >= 4 * d + 8:
                ww = wt[sel] / wt[sel].sum()
                if 1.0 / np.sum(ww ** 2) >= 2 * d + 4:
                    m = ww @ ut[sel]
                    sdc = np.sqrt(ww @ (ut[sel] - m) ** 2)
                    z = np.abs(mu - m) / np.maximum(sdc, 1e-300)
                    j = int(np.argmax(z))
                    if np.isfinite(z[j]) and z[j] > 3.0 and abs(mu[j] - m[j]) > 1e-9:
                        raise Violation(f"{where}: proposal mode {r} is centred at {np.round(mu, 4).tolist()}: along coordinate {j} that is "
                                        f"{z[j]:.1f} standard deviations (of the cluster's own weighted cloud) away from the weighted mean "
                                        f"{np.round(m, 4).tolist()} of the {int(sel.sum())} training particles of cluster {r}: it was not fitted "
                                        f"from the particles of that cluster", sig={"kind": "mode-of-other-cluster"})
        n_checked += 1
    return n_checked


def check_membership(labels, u_active, clusterer, pool_u, where):
    """A particle labelled r must be a particle of cluster r. Flagged only when BOTH hold (so that any reasonable assignment rule
    passes): the clusterer that defined the modes assigns the particle to another cluster, and the particle lies outside the
    bounding box of the pool points of cluster r."""
    if clusterer is None or getattr(clusterer, "n_clusters_", 0) < 2:
        return 0
    labels, u_active = np.asarray(labels), np.asarray(u_active, dtype=float)
    pred = np.asarray(clusterer.predict(u_active))
    pl = np.asarray(clusterer.predict(pool_u))
    bad = np.flatnonzero(pred != labels)
    n_bad = 0
    for k in bad:
        P = pool_u[pl == labels[k]]
        if len(P) == 0:
            continue
        lo, hi = P.min(0), P.max(0)
        if np.any(u_active[k] < lo - 1e-9) or np.any(u_active[k] > hi + 1e-9):
            n_bad += 1
            first = k
    if n_bad:
        raise Violation(f"{where}: {n_bad} of {len(labels)} active particles carry the label of a cluster they do not belong to (e.g. particle at "
                        f"{np.round(u_active[first], 4).tolist()} is labelled {int(labels[first])}, the clusterer assigns it to {int(pred[first])} and it lies "
                        f"outside the bounding box of cluster {int(labels[first])}'s particles)", sig={"kind": "particle-in-wrong-cluster"})
    return len(bad)


def trimmed_labels(trainer, weights, pool_u):
    """labels (as the shared clusterer predicts them now) of the trimmed training points."""
    from tempest.tools import trim_weights

    if trainer.clusterer is None:
        return None
    idx, _ = trim_weights(np.arange(len(weights)), np.array(weights, dtype=float), ess=trainer.TRIM_ESS, bins=trainer.TRIM_BINS)
    return set(np.asarray(trainer.clusterer.predict(pool_u[idx])).tolist())


def trimmed_training(trainer, weights, pool_u):
    """(points, weights, labels as the shared clusterer predicts them now) of the trimmed training set."""
    from tempest.tools import trim_weights

    if trainer.clusterer is None:
        return None
    idx, wt = trim_weights(np.arange(len(weights)), np.array(weights, dtype=float), ess=trainer.TRIM_ESS, bins=trainer.TRIM_BINS)
    return pool_u[idx], np.asarray(wt, dtype=float), np.asarray(trainer.clusterer.predict(pool_u[idx]))


# ----------------------------------------------------------------------------- component level


@st.composite
def pool_cases(draw):
    d = draw(st.integers(1, 3))
    if draw(st.integers(0, 2)) == 0:
        # dedicated class: 4 separated, comparably populated modes at jittered, asymmetric positions (the clusterer then finds
        # 3-4 clusters; collinear symmetric layouts make its EM stall at one), one of which - any label, not only the last -
        # loses all its weight between refits of a cadence > 1
        d = draw(st.integers(2, 3))
        K = 4
        corners = draw(st.permutations([[0.25 + 0.5 * ((c >> j) & 1) for j in range(d)] for c in range(2**d)]))[:K]
        return {"d": d, "K": K, "centres": [[x + draw(st.floats(-0.08, 0.08)) for x in c] for c in corners],
                "widths": [draw(st.floats(0.008, 0.03)) for _ in range(K)], "mass": [draw(st.floats(0.7, 1.0)) for _ in range(K)],
                "N": draw(st.sampled_from([64, 128])), "batches": draw(st.integers(3, 5)), "wsigma": draw(st.sampled_from([0.0, 0.5, 1.0])),
                "cluster_every": draw(st.sampled_from([2, 3, 5])), "n_max_clusters": draw(st.sampled_from([None, None, 4])),
                "normalize": draw(st.sampled_from([True, True, False])), "thr": draw(st.sampled_from([0.3, 1.0])), "iters": draw(st.integers(4, 6)),
                "resample": draw(st.sampled_from(["mult", "syst"])), "seed": draw(st.integers(0, 2**31 - 2)),
                "die_rate": draw(st.sampled_from([40.0, 100.0])), "die_mode": draw(st.integers(0, 3)), "die_from": draw(st.integers(1, 2)),
                # half of them: the mode does not vanish but fades to a fixed small share of the pool's weight - small enough for
                # the trimmed training set to lose it, large enough for resampling to still put a particle there now and then
                "die_share": draw(st.sampled_from([None, 0.002, 0.004, 0.008]))}
    K = draw(st.integers(1, 4))
    return {"d": d, "K": K, "centres": [[draw(st.floats(0.1, 0.9)) for _ in range(d)] for _ in range(K)],
            "widths": [draw(st.floats(0.005, 0.12)) for _ in range(K)], "mass": [draw(st.floats(0.02, 1.0)) for _ in range(K)],
            "N": draw(st.sampled_from([16, 32, 64])), "batches": draw(st.integers(2, 6)), "wsigma": draw(st.sampled_from([0.0, 1.0, 3.0, 6.0])),
            "cluster_every": draw(st.sampled_from([1, 1, 2, 3, 5])), "n_max_clusters": draw(st.sampled_from([None, None, 1, 2, 4])),
            "normalize": draw(st.booleans()), "thr": draw(st.sampled_from([0.3, 1.0, 3.0])), "iters": draw(st.integers(3, 6)),
            "resample": draw(st.sampled_from(["mult", "syst"])), "seed": draw(st.integers(0, 2**31 - 2)),
            "die_rate": draw(st.sampled_from([0.0, 0.0, 2.0, 6.0, 20.0])), "die_mode": draw(st.integers(0, 3)), "die_from": draw(st.integers(0, 2))}


def exec_pool(case):
    from tempest.cluster import HierarchicalGaussianMixture
    from tempest.state_manager import StateManager
    from tempest.steps.resample import Resampler
    from tempest.steps.train import Trainer

    rng = np.random.default_rng(case["seed"])
    d, N = case["d"], case["N"]
    sm = StateManager(d)
    mass = np.array(case["mass"]) / np.sum(case["mass"])

    comp = []  # generating component of every pool point (to let one mode die as the iterations proceed)

    def batch(n):
        c = rng.choice(case["K"], n, p=mass)
        comp.append(c)
        u = np.array(case["centres"])[c] + rng.normal(0, 1, (n, d)) * np.array(case["widths"])[c][:, None]
        return np.clip(u, 1e-6, 1 - 1e-6)

    nmc = case["n_max_clusters"]
    clusterer = HierarchicalGaussianMixture(n_init=1, max_iterations=1000 if nmc is None else nmc - 1,
                                            min_points=None if nmc is None else 4 * d, threshold_modifier=case["thr"],
                                            covariance_type="full", verbose=False, normalize=case["normalize"])
    trainer = Trainer(state=sm, pbar=None, clusterer=clusterer, cluster_every=case["cluster_every"], clustering=True,
                      TRIM_ESS=0.99, TRIM_BINS=1000, DOF_FALLBACK=1e6)
    resampler = Resampler(state=sm, n_particles=N, resample=case["resample"], clusterer=clusterer, clustering=True, have_blobs=False)
    it0 = int(rng.integers(1, 4))
    for t in range(case["batches"]):
        u = batch(N)
        sm.update_current(dict(u=u, x=u.copy(), logl=-np.sum((u - 0.5) ** 2, axis=1), beta=0.0 if t == 0 else 0.3, logz=0.0, iter=it0 + t,
                               calls=0, steps=1, acceptance=1.0, efficiency=1.0, ess=1.0))
        sm.commit_current_to_history()
    np.random.seed(case["seed"])
    kmax, nonrefit, untrained, kfit, active_untrained, fade_comp = 0, 0, 0, 0, 0, None
    for j in range(case["iters"]):
        it = it0 + case["batches"] + j
        sm.set_current("iter", it)
        # (a quarter of the cases anneal from a temperature that is positive but tiny - below the schedule's own tolerance of 1e-4 -
        # as happens on likelihoods with an enormous dynamic range: every step treats 'beta > 0' the same way or not at all)
        sm.set_current("beta", (2.0 ** -14) * (1 + j) if case["seed"] % 4 == 0 else 0.3 + 0.1 * j)
        pool_u = sm.get_history("u", flat=True)
        lw = rng.normal(0, case["wsigma"], len(pool_u))
        # the mode is alive while the clusterer is first fitted (step 0) and dies from step die_from on
        if j >= case.get("die_from", 0):
            lw = lw - case.get("die_rate", 0.0) * (j + 1) * (np.concatenate(comp) == case.get("die_mode", 0) % case["K"])
        fade = case.get("die_share") is not None and j >= case.get("die_from", 0)
        if fade:
            lw = lw + case.get("die_rate", 0.0) * (j + 1) * (np.concatenate(comp) == case.get("die_mode", 0) % case["K"])
        w = np.exp(lw - lw.max())
        w /= w.sum()
        if fade:
            if fade_comp is None:
                # which generating mode fades: in half of these cases the one the fitted model gave its LAST label (a count of
                # modes taken from the labels that still occur, rather than from the model, is only wrong for the last one)
                fade_comp = case.get("die_mode", 0) % case["K"]
                if case["seed"] % 2 == 0 and getattr(clusterer, "n_clusters_", 0) and clusterer.n_clusters_ > 1:
                    lab = np.asarray(clusterer.predict(pool_u))
                    cc = np.concatenate(comp)
                    share = [np.mean(lab[cc == c] == clusterer.n_clusters_ - 1) if np.any(cc == c) else 0.0 for c in range(case["K"])]
                    fade_comp = int(np.argmax(share))
            m = np.concatenate(comp) == fade_comp
            if 0 < m.sum() < len(m):
                w[m] *= case["die_share"] * w[~m].sum() / ((1 - case["die_share"]) * w[m].sum())
                w /= w.sum()
        where = f"iteration {it} (cluster_every={case['cluster_every']}, step {j})"
        ms = lib_call(trainer.run, w.copy(), what=f"Trainer.run at {where}")
        lib_call(resampler.run, w.copy(), what=f"Resampler.run at {where}")
        labels = sm.get_current("assignments")
        K = check_modes(ms, labels, where)
        tl = trimmed_labels(trainer, w, pool_u)
        check_provenance(ms, labels, clusterer, pool_u, tl, where, train=trimmed_training(trainer, w, pool_u))
        check_membership(labels, sm.get_current("u"), clusterer, pool_u, where)
        if clusterer.n_clusters_ > len(tl or ()):
            untrained += 1
            if set(np.asarray(labels).tolist()) - set(tl or ()):
                active_untrained += 1
        if not (it % case["cluster_every"] == 0):
            nonrefit += 1
        kmax = max(kmax, len(set(np.asarray(labels).tolist())))
        kfit = max(kfit, int(clusterer.n_clusters_))
        if nmc is not None and K > nmc:
            raise Violation(f"{where}: {K} proposal modes exceed n_max_clusters={nmc}", sig={"kind": "cap-exceeded"})
        u = batch(N)  # the next committed batch (mutation itself is not part of this component-level check)
        sm.update_current(dict(u=u, x=u.copy(), logl=-np.sum((u - 0.5) ** 2, axis=1)))
        sm.commit_current_to_history()
    classes = ["cluster_every=%d" % case["cluster_every"], "cap=%s" % nmc, "normalize" if case["normalize"] else "raw",
               "dying-mode" if case.get("die_rate", 0) > 0 and case["K"] > 1 else "no-dying-mode"]
    if nonrefit:
        classes.append("has-non-refit-iteration")
    if untrained:
        classes.append("label-without-training-point")
    if active_untrained:
        classes.append("active-particle-in-cluster-without-training-point")
    classes.append("fitted-clusters=%d" % min(kfit, 5))
    return {"nontrivial": kmax >= 2, "classes": classes,
            "sample": {"d": d, "K_true": case["K"], "N": N, "cluster_every": case["cluster_every"], "cap": nmc, "K_referenced_max": kmax}}


# ----------------------------------------------------------------------------- sampler level


@st.composite
def run_cases(draw):
    d = draw(st.integers(1, 3))
    nm = draw(st.integers(2, 3))
    return {"d": d, "centres_u": [[draw(st.floats(0.15, 0.85)) for _ in range(d)] for _ in range(nm)],
            "width_u": draw(st.floats(0.01, 0.06)), "logamp": [draw(st.one_of(st.floats(-3.0, 0.0), st.floats(-14.0, -3.0))) for _ in range(nm - 1)],
            "kernel": draw(st.sampled_from(["tpcn", "rwm"])), "cluster_every": draw(st.sampled_from([1, 2, 3, 5])),
            "n_max_clusters": draw(st.sampled_from([None, None, 1, 2, 4])), "normalize": draw(st.booleans()),
            "thr": draw(st.sampled_from([0.3, 1.0, 3.0])), "N": draw(st.sampled_from([32, 48, 33])), "resume": draw(st.booleans()),
            "resample": draw(st.sampled_from(["mult", "syst"])), "ess_ratio": draw(st.sampled_from([2.0, 2.0, 1.0, 0.5, 3.5])),
            "vv": draw(st.sampled_from([None, None, 0.3, 2.0])), "boundary": draw(st.sampled_from(["none", "none", "periodic", "reflective"])),
            "seed": draw(st.integers(0, 2**31 - 2))}


def make_target(case):
    d = case["d"]
    c0 = case["centres_u"][0]
    t = Target(d, ["affine"] * d, [0.0] * d, [1.0] * d, c0, [case["width_u"]] * d, mode="vector",
               mix={"centre": case["centres_u"][1], "logamp": case["logamp"][0]})
    return t


def exec_run(case):
    t = make_target(case)
    cfg = dict(sample=case["kernel"], clustering=True, cluster_every=case["cluster_every"], n_max_clusters=case["n_max_clusters"],
               normalize=case["normalize"], split_threshold=case["thr"], n_particles=case["N"], resample=case.get("resample", "mult"),
               ess_ratio=case.get("ess_ratio", 2.0), volume_variation=case.get("vv"))
    if case.get("boundary", "none") != "none":
        cfg[case["boundary"]] = [case["seed"] % case["d"]]
    stats = {"calls": 0, "k2": 0, "nonrefit": 0, "prov": 0}

    def attach(s):
        core = core_of(s)
        ctx = {}
        wrap_method(core.trainer, "run", before=lambda w, *a, **k: ctx.__setitem__("w", np.array(w, dtype=float)),
                    after=lambda r, *a, **k: ctx.__setitem__("ms", r))

        def obs(kw, res):
            ms, labels = kw["mode_stats"], np.asarray(kw["assignments"])
            it = core.state.get_current("iter")
            where = f"mutation at iteration {it} (cluster_every={case['cluster_every']}, n_max_clusters={case['n_max_clusters']})"
            K = check_modes(ms, labels, where)
            pool_u = core.state.get_history("u", flat=True)
            tl = trimmed_labels(core.trainer, ctx["w"], pool_u) if "w" in ctx and len(ctx["w"]) == len(pool_u) else None
            tr = trimmed_training(core.trainer, ctx["w"], pool_u) if tl is not None else None
            stats["prov"] += check_provenance(ms, labels, core.trainer.clusterer, pool_u, tl, where, train=tr)
            check_membership(labels, kw["u"], core.trainer.clusterer, pool_u, where)
            stats["calls"] += 1
            if len(set(labels.tolist())) >= 2:
                stats["k2"] += 1
            if it % case["cluster_every"] != 0:
                stats["nonrefit"] += 1
            if case["n_max_clusters"] is not None and K > case["n_max_clusters"]:
                raise Violation(f"{where}: {K} proposal modes exceed the cap", sig={"kind": "cap-exceeded"})

        return obs

    with scratch_dir() as od:
        np.random.seed(case["seed"])
        s = make_sampler(t, cfg, output_dir=od)
        obs_first = attach(s)
        with patched_parallel_mcmc(obs_first), quiet():
            lib_call(s.run, n_total=3 * case["N"], progress=False, save_every=2 if case["resume"] else None,
                     what=f"Sampler.run(cluster_every={case['cluster_every']}, n_max_clusters={case['n_max_clusters']})")
        if case["resume"]:
            cks = sorted(f for f in glob.glob(os.path.join(od, "*.state")) if not f.endswith("_final.state"))
            cks = [f for f in cks]
            if cks:
                f = cks[len(cks) // 2]
                if case["seed"] % 2 == 1:
                    # the rewound object resumes, when possible, at an iteration that is NOT a refit iteration of the cadence
                    off = [c for c in cks if int(os.path.basename(c).split("_")[-1].split(".")[0]) % case["cluster_every"] != 0]
                    f = off[len(off) // 2] if off else f
                # a fresh sampler - or, in half of the cases, the SAME object (its trainer, resampler and clusterer have been used)
                same_object = case["seed"] % 2 == 1
                s2 = s if same_object else make_sampler(make_target(case), cfg, output_dir=od)
                np.random.seed(case["seed"] + 1)
                with patched_parallel_mcmc(obs_first if same_object else attach(s2)), quiet():
                    lib_call(s2.run, n_total=4 * case["N"], progress=False, resume_state_path=f,
                             what=f"Sampler.run(resume_state_path=<iteration {os.path.basename(f)}>, cluster_every={case['cluster_every']})")
    classes = ["cluster_every=%d" % case["cluster_every"], "cap=%s" % case["n_max_clusters"], "kernel:" + case["kernel"],
               ("resume-same-object" if case["seed"] % 2 else "resume-fresh-object") if case["resume"] else "no-resume"]
    if stats["nonrefit"]:
        classes.append("has-non-refit-mutation")
    return {"nontrivial": stats["k2"] >= 1, "classes": classes,
            "sample": {"case": {k: case[k] for k in ("d", "kernel", "cluster_every", "n_max_clusters", "normalize", "thr", "resume")},
                       "mutation_calls": stats["calls"], "calls_with_K>=2": stats["k2"], "provenance_checks": stats["prov"]}}


CHECKS = [
    Check("pools", pool_cases, exec_pool, n={"quick": 480, "thorough": 12000}, shards={"quick": 16, "thorough": 16}),
    Check("runs", run_cases, exec_run, n={"quick": 64, "thorough": 800}, shards={"quick": 16, "thorough": 16},
          shrink={"quick": False, "thorough": True}),
]
