"""C20 - weight utilities: ESS bounds, trimming contract, affine-invariant volume metric."""
import math

import numpy as np
from hypothesis import strategies as st

from vlib.core import Violation, lib_call
from vlib.hypo import Check

PID = "C20"
LEVEL = "exploration"
RULE = (
    "Hypothesis draws weight-vector specs (length 1..10^4; families uniform, U(0,1), exp N(0,sigma<=200) clipped to 300 decades, "
    "70% zeros, ties, explicit short float lists), scale factors 10^U(-100,100), ess fractions in (0,1), bins in {1,2,3,10,100,1000}, "
    "sample clouds (d 1..5, n>=5d, base condition <=10) and affine maps of condition 10^U(0,6), scale 10^U(-3,3), translations. "
    "Non-trivial: ess check = >=2 distinct positive weights; trim = trimming removed >=1 sample; volume = cond(A)>=1e3. distinct = case hash."
)
ASSUMPTIONS = [
    "ESS tolerances 1e-9 relative; trimming ESS-ratio tolerance 1e-12",
    "volume-variation affine invariance asserted within (1e-10 + 50*eps*cond(Cov_mapped) + 200*eta*sqrt(cond)) relative, eta = eps*max|y|/sqrt(lambda_min(Cov_mapped)) being the rounding already present in the mapped inputs, for cond <= 1e13; beyond that the documented rank-regularisation branch engages and nothing is asserted",
    "ess fractions generated in (0, 1-1e-6]: the trimming loop has no exit if even the untrimmed set fails the ratio test by rounding",
]
EPS = float(np.finfo(float).eps)


def build_weights(spec):
    if spec["family"] == "explicit":
        w = np.array([float(v) for v in spec["w"]], dtype=float)
    else:
        rng = np.random.default_rng(spec["seed"])
        n = spec["n"]
        f = spec["family"]
        if f == "uniform":
            w = np.full(n, 10.0 ** rng.uniform(-100, 100))
        elif f == "u01":
            w = rng.random(n)
        elif f == "lognormal":
            lw = rng.normal(0, spec["sigma"], n) / math.log(10)
            lw = np.clip(lw - lw.max(), -300, 0)
            w = 10.0 ** lw
        elif f == "zeros":
            w = rng.random(n)
            w[rng.random(n) < 0.7] = 0.0
        else:  # ties
            w = rng.choice(rng.random(max(1, min(5, n))), n)
    if not np.any(w > 0):
        w[0] = 1.0
    return w


@st.composite
def wspec(draw, max_n=10000):
    fam = draw(st.sampled_from(["uniform", "u01", "lognormal", "zeros", "ties", "explicit"]))
    if fam == "explicit":
        w = draw(st.lists(st.floats(0.0, 1e300, allow_nan=False), min_size=1, max_size=8))
        return {"family": fam, "w": w}
    n = draw(st.one_of(st.integers(1, 12), st.integers(1, 400), st.integers(1, max_n)))
    return {"family": fam, "n": n, "seed": draw(st.integers(0, 2**31 - 1)),
            "sigma": draw(st.sampled_from([0.5, 3.0, 30.0, 200.0]))}


def ref_ess(w):
    w = np.asarray(w, dtype=np.longdouble)
    w = w / w.sum()
    return float(1.0 / np.sum(w * w))


# ------------------------------------------------------------------ ESS


@st.composite
def ess_cases(draw):
    return {"w": draw(wspec()), "logc": draw(st.floats(-100.0, 100.0))}


def exec_ess(case):
    from tempest.tools import compute_ess, effective_sample_size

    w = build_weights(case["w"])
    N = len(w)
    if np.max(w) > 1e200:  # keep w*c and sum(w) representable
        w = w / 1e150
    ess = float(lib_call(effective_sample_size, w.copy(), what="effective_sample_size"))
    if not np.isfinite(ess) or ess < 1 - 1e-9 or ess > N * (1 + 1e-12):
        raise Violation(f"ESS={ess!r} outside [1, N={N}]", sig={"kind": "ess-range"}, detail={"w": w.tolist()[:50]})
    r = ref_ess(w)
    if abs(ess - r) > 1e-9 * r:
        raise Violation(f"ESS={ess!r} but 1/sum(w_norm^2)={r!r}", sig={"kind": "ess-value"}, detail={"w": w.tolist()[:50]})
    if len(set(w.tolist())) == 1 and abs(ess - N) > 1e-9 * N:
        raise Violation(f"ESS of uniform weights = {ess!r}, expected N={N}", sig={"kind": "ess-uniform"})
    # rescaling: keep every positive weight representable after scaling
    pos = w[w > 0]
    lo, hi = math.log10(pos.min()), math.log10(pos.max())
    logc = float(np.clip(case["logc"], -290 - lo, 290 - hi)) if (-290 - lo) <= (290 - hi) else 0.0
    c = 10.0 ** logc
    ess_c = float(lib_call(effective_sample_size, w * c, what="effective_sample_size(c*w)"))
    if abs(ess_c - ess) > 1e-9 * ess:
        raise Violation(f"ESS changes under rescaling by c=1e{logc:.1f}: {ess!r} -> {ess_c!r}", sig={"kind": "ess-scale"},
                        detail={"w": w.tolist()[:50]})
    # compute_ess(logw) == ESS/N
    with np.errstate(divide="ignore"):
        logw = np.log(w) + math.log(10) * logc
    ce = float(lib_call(compute_ess, logw.copy(), what="compute_ess"))
    if abs(ce - r / N) > 1e-9 * (r / N):
        raise Violation(f"compute_ess={ce!r} but ESS/N={r / N!r}", sig={"kind": "compute-ess"}, detail={"w": w.tolist()[:50]})
    if not (1.0 / N - 1e-12 <= ce <= 1 + 1e-12):
        raise Violation(f"compute_ess={ce!r} outside [1/N,1]", sig={"kind": "compute-ess-range"})
    nt = len(set(pos.tolist())) >= 2
    return {"nontrivial": nt, "classes": ["family:" + case["w"]["family"], "N>=1000" if N >= 1000 else "N<1000"]}


# ------------------------------------------------------------------ trim_weights


@st.composite
def trim_cases(draw):
    return {"w": draw(wspec(max_n=3000)), "ess": draw(st.one_of(st.floats(1e-3, 1 - 1e-6), st.sampled_from([0.5, 0.9, 0.99, 0.999]))),
            "bins": draw(st.sampled_from([1, 2, 3, 10, 100, 1000])), "d": draw(st.integers(0, 3)),
            # representation of the weight vector handed in: float64 array, float32 array, list (integer arrays are rejected by the
            # routine's in-place normalisation with a TypeError on the unchanged tree: not an accepted input)
            "wrepr": draw(st.sampled_from(["f8", "f8", "f4", "list"]))}


def exec_trim(case):
    from tempest.tools import trim_weights

    w0 = build_weights(case["w"])
    if np.max(w0) > 1e200:
        w0 = w0 / 1e150
    N = len(w0)
    d = case["d"]
    wrepr = case.get("wrepr", "f8")
    if wrepr == "f4":
        w_in = w0.astype(np.float32)
        w0 = w_in.astype(np.float64)  # the oracle judges the values that were actually handed in
        if not (np.all(np.isfinite(w0)) and w0.sum() > 0 and np.isfinite(np.float32(w0.sum()))):
            # out of single-precision range: hand the float64 vector in after all
            w0, wrepr = build_weights(case["w"]), "f8"
            if np.max(w0) > 1e200:
                w0 = w0 / 1e150
            w_in = w0.copy()
    elif wrepr == "list":
        w_in = w0.tolist()
    else:
        w_in = w0.copy()
    samples = np.arange(N) if d == 0 else np.repeat(np.arange(N, dtype=float)[:, None], d, axis=1)
    tol = 1e-9 if wrepr != "f4" else 1e-4  # single precision in, single precision arithmetic inside
    out = lib_call(trim_weights, samples.copy(), w_in, ess=float(case["ess"]), bins=int(case["bins"]), what=f"trim_weights(weights as {wrepr})")

    if not (isinstance(out, tuple) and len(out) == 2):
        raise Violation("trim_weights did not return (samples, weights)", sig={"kind": "arity"})
    s, wt = np.asarray(out[0]), np.asarray(out[1], dtype=float)
    if len(s) != len(wt) or len(s) == 0:
        raise Violation(f"samples/weights lengths differ or empty: {len(s)} vs {len(wt)}", sig={"kind": "length"})
    idx = (s if d == 0 else s[:, 0]).astype(int)
    if d > 0 and not np.all(s == s[:, :1]):
        raise Violation("sample rows were mixed", sig={"kind": "alignment"})
    if len(set(idx.tolist())) != len(idx) or idx.min() < 0 or idx.max() >= N:
        raise Violation("returned samples are not a subset of the input", sig={"kind": "subset"})
    if abs(float(np.sum(wt.astype(np.longdouble))) - 1.0) > tol:
        raise Violation(f"trimmed weights sum to {wt.sum()!r}", sig={"kind": "normalisation"})
    if np.any(wt < 0) or not np.all(np.isfinite(wt)):
        raise Violation("negative or non-finite trimmed weight", sig={"kind": "sign"})
    wn = w0 / w0.sum()
    kept = np.zeros(N, dtype=bool)
    kept[idx] = True
    if kept.sum() < N and not (wn[kept].min() > wn[~kept].max()):
        raise Violation(f"kept set is not exactly the samples at or above a weight threshold: min kept {wn[kept].min()!r} "
                        f"<= max dropped {wn[~kept].max()!r}", sig={"kind": "upper-set"}, detail={"w": w0.tolist()[:60]})
    exp = wn[idx] / wn[idx].sum()
    if np.max(np.abs(wt - exp)) > tol * max(exp.max(), 1e-300) + 1e-300:
        raise Violation("trimmed weights are not the renormalised original weights of the kept samples (alignment lost)",
                        sig={"kind": "alignment"}, detail={"w": w0.tolist()[:60]})
    e_all, e_kept = ref_ess(wn), ref_ess(wn[idx])
    if e_kept / e_all < float(case["ess"]) - (1e-12 if wrepr != "f4" else tol):
        raise Violation(f"ESS kept/ESS all = {e_kept / e_all!r} < requested {case['ess']!r}", sig={"kind": "ess-fraction"},
                        detail={"w": w0.tolist()[:60]})
    removed = N - int(kept.sum())
    return {"nontrivial": removed >= 1, "classes": ["family:" + case["w"]["family"], "bins=%d" % case["bins"],
                                                    "removed>0" if removed else "removed=0"],
            "sample": {"N": N, "removed": removed, "ess": case["ess"], "bins": case["bins"], "family": case["w"]["family"]}}


# ------------------------------------------------------------------ volume variation


@st.composite
def vol_cases(draw):
    d = draw(st.integers(1, 5))
    return {"d": d, "n": draw(st.integers(5 * d, 400)), "seed": draw(st.integers(0, 2**31 - 1)),
            "law": draw(st.sampled_from(["normal", "uniform", "t3", "bimodal"])),
            "base_cond": draw(st.floats(1.0, 10.0)), "logcondA": draw(st.floats(0.0, 6.0)),
            "logscale": draw(st.floats(-3.0, 3.0)), "shift": draw(st.floats(-1e3, 1e3)),
            "wfam": draw(st.sampled_from(["none", "u01", "lognormal"])), "logc": draw(st.floats(-50.0, 50.0))}


def exec_vol(case):
    from tempest.tools import volume_variation

    rng = np.random.default_rng(case["seed"])
    d, n = case["d"], case["n"]
    law = case["law"]
    if law == "normal":
        z = rng.normal(size=(n, d))
    elif law == "uniform":
        z = rng.random((n, d))
    elif law == "t3":
        z = rng.standard_t(3, size=(n, d))
    else:
        z = rng.normal(size=(n, d)) + 4.0 * rng.integers(0, 2, size=(n, 1))
    Q, _ = np.linalg.qr(rng.normal(size=(d, d)))
    x = (z * np.linspace(1.0, math.sqrt(case["base_cond"]), d)) @ Q
    w = None if case["wfam"] == "none" else (rng.random(n) + 1e-3 if case["wfam"] == "u01" else np.exp(rng.normal(0, 1.0, n)))
    v0 = float(lib_call(volume_variation, x.copy(), None if w is None else w.copy(), what="volume_variation"))
    if not np.isfinite(v0) or v0 < 0:
        raise Violation(f"volume_variation = {v0!r} (must be finite and >= 0)", sig={"kind": "vv-sign"})
    if w is not None:
        c = 10.0 ** case["logc"]
        v1 = float(lib_call(volume_variation, x.copy(), w * c, what="volume_variation(c*w)"))
        if abs(v1 - v0) > 1e-9 * max(1.0, v0):
            raise Violation(f"volume_variation changes under weight rescaling: {v0!r} -> {v1!r}", sig={"kind": "vv-wscale"})
    # affine map
    U, _ = np.linalg.qr(rng.normal(size=(d, d)))
    V, _ = np.linalg.qr(rng.normal(size=(d, d)))
    sv = 10.0 ** np.linspace(0.0, case["logcondA"], d) if d > 1 else np.ones(1)
    A = (U * sv) @ V.T * 10.0 ** case["logscale"]
    y = x @ A.T + case["shift"]
    wn = np.ones(n) / n if w is None else w / w.sum()
    yc = y - (y * wn[:, None]).sum(0)
    cov = yc.T @ (yc * wn[:, None])
    kappa = float(np.linalg.cond(cov))
    classes = ["law:" + law, "w:" + case["wfam"], "d=%d" % d]
    if not np.isfinite(kappa) or kappa > 1e13:
        classes.append("cond>1e13-not-asserted")
        return {"nontrivial": False, "classes": classes}
    v2 = float(lib_call(volume_variation, y.copy(), None if w is None else w.copy(), what="volume_variation(Ax+b)"))
    # eta: relative perturbation of the *inputs* y=Ax+b by their own rounding, measured against the smallest
    # standard deviation of the mapped cloud (a far-away translation eats low-order bits of x before any code runs)
    lam_min = float(np.linalg.eigvalsh(cov)[0])
    eta = EPS * float(np.max(np.abs(y))) / math.sqrt(max(lam_min, 1e-300))
    tol = (1e-10 + 50 * EPS * kappa + 200 * eta * math.sqrt(kappa)) * max(1.0, v0)
    if abs(v2 - v0) > tol:
        raise Violation(f"volume_variation not affine invariant: {v0!r} -> {v2!r} (|diff|={abs(v2 - v0):.3g} > tol={tol:.3g}, "
                        f"cond(Cov_mapped)={kappa:.3g})", sig={"kind": "vv-affine"})
    classes.append("condA>=1e3" if case["logcondA"] >= 3 else "condA<1e3")
    return {"nontrivial": case["logcondA"] >= 3, "classes": classes,
            "sample": {"d": d, "n": n, "law": law, "condA": 10 ** case["logcondA"], "vv": v0, "vv_mapped": v2}}


CHECKS = [
    Check("ess", ess_cases, exec_ess, n={"quick": 8000, "thorough": 200000}, shards={"quick": 16, "thorough": 16}),
    Check("trim", trim_cases, exec_trim, n={"quick": 6400, "thorough": 100000}, shards={"quick": 16, "thorough": 16}),
    Check("volume", vol_cases, exec_vol, n={"quick": 6400, "thorough": 100000}, shards={"quick": 16, "thorough": 16}),
]
