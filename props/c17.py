"""C17 - accessors never alias internal state; committed history is append-only.

statemanager: model-based operation sequences over StateManager (set/update/commit/get/export/import/save/load);
  EVERY array any operation returns is overwritten immediately; after every step all public reads must agree with a
  pure-Python model bit for bit, history must have grown by exactly one batch per recorded key per commit and every
  earlier batch must be unchanged.
sampler: operation sequences over a real Sampler (sample / posterior(any options) / results / state.to_dict /
  get_current / get_history / evidence), all outputs scribbled on, against an untouched twin driven with the same seeds.
"""
import copy
import os

import numpy as np
from hypothesis import strategies as st

from vlib.core import Violation, lib_call
from vlib.hypo import Check
from vlib.runs import history_snapshot, make_sampler, quiet, scratch_dir, snapshots_equal
from vlib.targets import Target, simple_target_spec

PID = "C17"
LEVEL = "exploration"
RULE = (
    "Hypothesis draws operation sequences (up to 40 steps quick / 80 thorough): StateManager machine with ops set_current/update_current "
    "(copy True/False), commit(strict T/F), get_current(key|all), get_history(index|all|flat), get_last_history, compute_results, "
    "compute_logw_and_logz, to_dict, from_dict, update_from_dict, save_state+load_state; Sampler machine with ops sample, posterior(2^4 options), "
    "results, state.to_dict, state.get_current, state.get_history, evidence. Non-trivial = a sequence in which an array obtained from an "
    "accessor was scribbled on and the same quantity was read again later. distinct = distinct operation sequence."
)
ASSUMPTIONS = [
    "with copy=False the CURRENT value may alias the caller's array (documented opt-in): the harness leaves such a buffer alone until the value has been committed, then overwrites it - a committed batch must not change - and re-sets the current value",
    "dictionaries passed to from_dict/update_from_dict are user input, not accessor output: they are built fresh and never touched again",
    "batches of one machine have one fixed particle count (as in the sampler), so get_history(key) can stack them",
]

ARRAY_KEYS = ["u", "x", "logl", "blobs", "assignments"]
SCALAR_KEYS = ["acceptance", "steps", "efficiency", "ess", "beta", "logz", "calls", "iter"]
HIST_KEYS = ["u", "x", "logl", "blobs", "iter", "logz", "calls", "steps", "efficiency", "ess", "acceptance", "beta"]


def op_strategy():
    key_a = st.sampled_from(ARRAY_KEYS)
    key_s = st.sampled_from(SCALAR_KEYS)
    val = st.integers(0, 10**6)
    return st.one_of(
        st.builds(lambda k, v, c: {"op": "set", "key": k, "val": v, "copy": c}, st.one_of(key_a, key_s), val, st.booleans()),
        st.builds(lambda ks, v, c: {"op": "update", "keys": ks, "val": v, "copy": c},
                  st.lists(st.one_of(key_a, key_s), min_size=1, max_size=4, unique=True), val, st.booleans()),
        st.builds(lambda k: {"op": "set_none", "key": k}, st.sampled_from(["blobs", "assignments", "ess", "steps"])),
        st.builds(lambda s, v: {"op": "commit", "strict": s, "val": v}, st.booleans(), val),
        st.builds(lambda s, v: {"op": "iterate", "strict": s, "val": v}, st.booleans(), val),
        st.builds(lambda s, v: {"op": "iterate", "strict": s, "val": v}, st.booleans(), val),
        st.builds(lambda k: {"op": "get_current", "key": k}, st.one_of(st.none(), key_a, key_s)),
        st.builds(lambda k, i, f: {"op": "get_history", "key": k, "index": i, "flat": f},
                  st.sampled_from(HIST_KEYS), st.one_of(st.none(), st.integers(0, 50)), st.booleans()),
        st.builds(lambda k: {"op": "get_last", "key": k}, st.sampled_from(HIST_KEYS)),
        st.just({"op": "results"}), st.just({"op": "results"}),
        st.builds(lambda b, n: {"op": "logw", "beta": b, "normalize": n}, st.sampled_from([0.0, 0.5, 1.0]), st.booleans()),
        st.just({"op": "to_dict"}), st.just({"op": "to_dict"}),
        st.just({"op": "from_dict"}), st.just({"op": "update_from_dict"}), st.just({"op": "save_load"}),
    )


@st.composite
def sm_cases(draw, max_ops=40):
    return {"d": draw(st.integers(1, 3)), "n": draw(st.integers(1, 5)), "ops": draw(st.lists(op_strategy(), min_size=1, max_size=max_ops))}


def scribble(o, counter):
    """Overwrite every numpy array reachable in o (dict / list / tuple / array)."""
    if isinstance(o, np.ndarray):
        if o.size and o.flags.writeable:
            if o.dtype.kind == "f":
                o[...] = np.nan
            elif o.dtype.kind in "iu":
                o[...] = o + 7
            counter[0] += 1
    elif isinstance(o, dict):
        for v in o.values():
            scribble(v, counter)
    elif isinstance(o, (list, tuple)):
        for v in o:
            scribble(v, counter)


def same(a, b):
    if a is None or b is None:
        return a is None and b is None
    if isinstance(a, np.ndarray) or isinstance(b, np.ndarray):
        a, b = np.asarray(a), np.asarray(b)
        return a.shape == b.shape and bool(np.array_equal(a, b, equal_nan=True))
    return a == b


def exec_sm(case):
    from tempest.state_manager import StateManager

    d, n = case["d"], case["n"]
    sm = StateManager(d)
    cur = {k: None for k in ARRAY_KEYS + SCALAR_KEYS}
    hist = {k: [] for k in HIST_KEYS}
    scribbles = [0]
    reread = [False]

    def mk(key, v):
        v = int(v)
        if key in ("u", "x"):
            return (np.arange(n * d, dtype=float).reshape(n, d) + v) / 7.0
        if key in ("logl", "blobs"):
            return -(np.arange(n, dtype=float) + v % 97) / 3.0
        if key == "assignments":
            return (np.arange(n) + v) % 3
        if key == "beta":
            return (v % 1001) / 1000.0
        if key in ("iter", "calls", "steps"):
            return v % 10007
        return (v % 2003) / 17.0 - 30.0

    aliased = {}  # key -> caller's array handed over with copy=False (the CURRENT value may alias it; committed history may not)

    def do_set(key, v, copy_flag):
        val = mk(key, v)
        model_val = copy.deepcopy(val)
        lib_call(sm.set_current, key, val, copy=copy_flag, what="set_current")
        cur[key] = model_val
        aliased.pop(key, None)
        if copy_flag and isinstance(val, np.ndarray):
            scribble(val, [0])  # the caller keeps ownership of its array and changes it
        elif not copy_flag and isinstance(val, np.ndarray):
            aliased[key] = val

    def after_commit():
        """The caller reuses the buffers it handed over with copy=False. That may change the CURRENT value (documented), never
        a committed batch; the current value is then re-set so that the model stays well defined."""
        for key, buf in list(aliased.items()):
            scribble(buf, scribbles)
            fresh = mk(key, 424242 + len(hist["beta"]))
            lib_call(sm.set_current, key, fresh, copy=True, what="set_current")
            cur[key] = copy.deepcopy(fresh)
            del aliased[key]

    def verify(where):
        allc = lib_call(sm.get_current, what="get_current()")
        for k in cur:
            if not same(allc.get(k), cur[k]):
                raise Violation(f"{where}: current['{k}'] reads {allc.get(k)!r}, model says {cur[k]!r}", sig={"kind": "current-corrupted", "key_kind": "array" if k in ARRAY_KEYS else "scalar"})
        for k in HIST_KEYS:
            L = len(hist[k])
            try:
                sm.get_history(k, index=L)
                raise Violation(f"{where}: history['{k}'] has more than the {L} committed batches", sig={"kind": "history-length"})
            except IndexError:
                pass
            for i in range(L):
                got = lib_call(sm.get_history, k, index=i, what="get_history(index)")
                if not same(got, hist[k][i]):
                    raise Violation(f"{where}: history['{k}'][{i}] reads {got!r}, but {hist[k][i]!r} was committed", sig={"kind": "history-corrupted"})
        if lib_call(sm.get_history_length, what="get_history_length") != len(hist["beta"]):
            raise Violation(f"{where}: get_history_length() != number of commits", sig={"kind": "history-length"})

    def model_dict():
        return {"_current": {k: copy.deepcopy(v) for k, v in cur.items()},
                "_history": {k: [copy.deepcopy(x) for x in v] for k, v in hist.items()}, "n_dim": d}

    for step, op in enumerate(case["ops"]):
        o = op["op"]
        where = f"step {step} ({o})"
        if o == "set":
            do_set(op["key"], op["val"], op["copy"])
        elif o == "update":
            vals = {k: mk(k, op["val"] + j) for j, k in enumerate(op["keys"])}
            mv = copy.deepcopy(vals)
            lib_call(sm.update_current, vals, copy=op["copy"], what="update_current")
            cur.update(mv)
            for k_ in vals:
                aliased.pop(k_, None)
            if op["copy"]:
                scribble(vals, [0])
            else:
                aliased.update({k_: v_ for k_, v_ in vals.items() if isinstance(v_, np.ndarray)})
        elif o == "set_none":
            lib_call(sm.set_current, op["key"], None, what="set_current(None)")
            cur[op["key"]] = None
            aliased.pop(op["key"], None)
        elif o == "iterate":  # what one sampler iteration does: refresh every recorded quantity, then commit
            vals = {k: mk(k, op["val"] + 3 * j) for j, k in enumerate(HIST_KEYS + ["assignments"])}
            mv = copy.deepcopy(vals)
            lib_call(sm.update_current, vals, copy=True, what="update_current")
            cur.update(mv)
            for k_ in vals:
                aliased.pop(k_, None)
            scribble(vals, [0])
            lib_call(sm.commit_current_to_history, strict=op["strict"], what="commit_current_to_history")
            for k in HIST_KEYS:
                if cur[k] is not None:
                    hist[k].append(copy.deepcopy(cur[k]))
            after_commit()
        elif o == "commit":
            for j, k in enumerate(("beta", "logz", "logl")):
                if cur[k] is None:
                    do_set(k, op["val"] + j, True)
            lib_call(sm.commit_current_to_history, strict=op["strict"], what="commit_current_to_history")
            for k in HIST_KEYS:
                if cur[k] is not None:
                    hist[k].append(copy.deepcopy(cur[k]))
            after_commit()
        elif o == "get_current":
            got = lib_call(sm.get_current, op["key"], what="get_current")
            exp = cur if op["key"] is None else cur[op["key"]]
            if op["key"] is None:
                for k in cur:
                    if not same(got.get(k), cur[k]):
                        raise Violation(f"{where}: get_current()['{k}'] wrong", sig={"kind": "current-corrupted"})
            elif not same(got, exp):
                raise Violation(f"{where}: get_current('{op['key']}') = {got!r}, model {exp!r}", sig={"kind": "current-corrupted"})
            scribble(got, scribbles)
        elif o == "get_history":
            k, L = op["key"], len(hist[op["key"]])
            if op["index"] is not None:
                if L == 0:
                    continue
                i = op["index"] % L
                got = lib_call(sm.get_history, k, index=i, what="get_history(index)")
                if not same(got, hist[k][i]):
                    raise Violation(f"{where}: get_history('{k}', {i}) wrong", sig={"kind": "history-corrupted"})
            elif op["flat"] and k in ("u", "x", "logl", "blobs"):
                if L == 0:
                    continue
                got = lib_call(sm.get_history, k, flat=True, what="get_history(flat)")
                if not same(got, np.concatenate(hist[k])):
                    raise Violation(f"{where}: get_history('{k}', flat=True) wrong", sig={"kind": "history-corrupted"})
            else:
                got = lib_call(sm.get_history, k, what="get_history")
                if not same(got, np.array(hist[k])):
                    raise Violation(f"{where}: get_history('{k}') wrong", sig={"kind": "history-corrupted"})
            scribble(got, scribbles)
            # the same query again: must not see what the caller did to the first answer
            if op["index"] is None and L > 0:
                flat = op["flat"] and k in ("u", "x", "logl", "blobs")
                again = lib_call(sm.get_history, k, flat=flat, what="get_history (again)")
                exp = np.concatenate(hist[k]) if flat else np.array(hist[k])
                if not same(again, exp):
                    raise Violation(f"{where}: get_history('{k}', flat={flat}) returns the array the caller modified a moment ago "
                                    f"instead of the committed history", sig={"kind": "history-corrupted"})
        elif o == "get_last":
            got = lib_call(sm.get_last_history, op["key"], what="get_last_history")
            exp = hist[op["key"]][-1] if hist[op["key"]] else None
            if not same(got, exp):
                raise Violation(f"{where}: get_last_history('{op['key']}') wrong", sig={"kind": "history-corrupted"})
            scribble(got, scribbles)
        elif o == "results":
            if not hist["beta"]:
                continue
            for rep in range(2):  # the second call must not see what the caller did to the first result
                res = lib_call(sm.compute_results, what="compute_results")
                for k in HIST_KEYS:
                    if not same(np.asarray(res[k]), np.array(hist[k])):
                        raise Violation(f"{where}: compute_results()['{k}'] (call {rep + 1}) = {np.asarray(res[k]).tolist()!r}, committed history "
                                        f"is {np.array(hist[k]).tolist()!r}", sig={"kind": "results-corrupted"})
                lw, _ = lib_call(sm.compute_logw_and_logz, 1.0, what="compute_logw_and_logz")
                if not same(np.asarray(res["logw"]), np.asarray(lw)):
                    raise Violation(f"{where}: compute_results()['logw'] (call {rep + 1}) differs from compute_logw_and_logz(1.0)",
                                    sig={"kind": "results-corrupted"})
                scribble(res, scribbles)
                reread[0] = True
        elif o == "logw":
            if not hist["beta"]:
                continue
            nz = bool(op.get("normalize", True))
            a = lib_call(sm.compute_logw_and_logz, op["beta"], normalize=nz, what=f"compute_logw_and_logz(normalize={nz})")
            b = lib_call(sm.compute_logw_and_logz, op["beta"], normalize=nz, what=f"compute_logw_and_logz(normalize={nz})")
            b = (np.array(b[0], copy=True), b[1])
            scribble(a[0], scribbles)
            c = lib_call(sm.compute_logw_and_logz, op["beta"], normalize=nz, what=f"compute_logw_and_logz(normalize={nz})")
            if not same(b[0], c[0]) or not same(b[1], c[1]):
                raise Violation(f"{where}: compute_logw_and_logz(normalize={nz}) changed after its result was modified", sig={"kind": "logw-corrupted"})
            if not nz:
                c = lib_call(sm.compute_logw_and_logz, op["beta"], what="compute_logw_and_logz")
            from vlib.refs import mis_logw
            rl, rz, M = mis_logw(hist["logl"], hist["beta"], hist["logz"], op["beta"])
            if np.max(np.abs(np.asarray(c[0], dtype=float) - np.asarray(rl, dtype=float))) > 1e-8 * max(1.0, M) or abs(float(c[1]) - float(rz)) > 1e-8 * max(1.0, M):
                raise Violation(f"{where}: compute_logw_and_logz({op['beta']}) does not correspond to the committed history any more "
                                f"(an array handed out earlier and modified by the caller is being used)", sig={"kind": "logw-corrupted"})
        elif o == "to_dict":
            dd = lib_call(sm.to_dict, what="to_dict")
            md = model_dict()
            for k in cur:
                if not same(dd["_current"].get(k), md["_current"][k]):
                    raise Violation(f"{where}: to_dict()['_current']['{k}'] wrong", sig={"kind": "export-wrong"})
            for k in HIST_KEYS:
                if len(dd["_history"][k]) != len(hist[k]) or any(not same(a, b) for a, b in zip(dd["_history"][k], hist[k])):
                    raise Violation(f"{where}: to_dict()['_history']['{k}'] wrong", sig={"kind": "export-wrong"})
            scribble(dd, scribbles)
            dd["_history"]["beta"].append(0.123)  # the caller may also restructure what it was given
            dd["_current"]["beta"] = -1.0
        elif o == "from_dict":
            sm = lib_call(StateManager.from_dict, model_dict(), what="from_dict")
            aliased.clear()
        elif o == "update_from_dict":
            lib_call(sm.update_from_dict, model_dict(), what="update_from_dict")
            aliased.clear()
        elif o == "save_load":
            with scratch_dir() as td, quiet():
                p = os.path.join(td, "sub", "state.pkl")
                os.makedirs(os.path.dirname(p))
                lib_call(sm.save_state, p, what="save_state")
                sm2 = StateManager(d)
                lib_call(sm2.load_state, p, what="load_state")
                sm = sm2
                aliased.clear()
        verify(where)
        if scribbles[0]:
            reread[0] = True
    return {"nontrivial": scribbles[0] > 0 and reread[0],
            "classes": ["ops>=10" if len(case["ops"]) >= 10 else "ops<10", "commits>=2" if len(hist["beta"]) >= 2 else "commits<2",
                        "scribbled" if scribbles[0] else "no-scribble"],
            "sample": {"n_ops": len(case["ops"]), "ops": [o["op"] for o in case["ops"]][:25], "commits": len(hist["beta"]), "arrays_scribbled": scribbles[0]}}


# ----------------------------------------------------------------------------- Sampler machine


def sampler_op():
    return st.one_of(
        st.just({"op": "sample"}), st.just({"op": "sample"}),
        st.builds(lambda a, b, c, e: {"op": "posterior", "resample": a, "trim": b, "blobs": c, "logw": e},
                  st.booleans(), st.booleans(), st.booleans(), st.booleans()),
        st.just({"op": "results"}), st.just({"op": "to_dict"}), st.just({"op": "get_current"}),
        st.builds(lambda k, f: {"op": "get_history", "key": k, "flat": f}, st.sampled_from(["u", "x", "logl", "beta", "logz"]), st.booleans()),
        st.just({"op": "evidence"}),
    )


@st.composite
def sampler_cases(draw, max_ops=14):
    return {"kernel": draw(st.sampled_from(["tpcn", "rwm"])), "clustering": draw(st.booleans()), "mode": draw(st.sampled_from(["vector", "blobs"])),
            "d": draw(st.integers(1, 2)), "seed": draw(st.integers(0, 2**31 - 2)),
            "ops": draw(st.lists(sampler_op(), min_size=2, max_size=max_ops))}


def exec_sampler(case):
    def build():
        t = Target.from_spec(simple_target_spec(np.random.default_rng(case["seed"]), case["d"], case["mode"]))
        s = make_sampler(t, dict(sample=case["kernel"], clustering=case["clustering"], n_particles=12))
        s._core._initialize_fresh()
        return s

    A, B = build(), build()
    scribbles = [0]
    n_iter = 0

    def call(s, op):
        o = op["op"]
        if o == "sample":
            return s.sample()
        if o == "posterior":
            if s.state.get_history_length() == 0:
                return None
            return s.posterior(resample=op["resample"], trim_importance_weights=op["trim"], return_blobs=op["blobs"], return_logw=op["logw"])
        if o == "results":
            return s.results() if s.state.get_history_length() else None
        if o == "to_dict":
            return s.state.to_dict()
        if o == "get_current":
            return s.state.get_current()
        if o == "get_history":
            if s.state.get_history_length() == 0:
                return None
            return s.state.get_history(op["key"], flat=op["flat"] and op["key"] in ("u", "x", "logl"))
        return s.evidence()

    def flat(o, out):
        if isinstance(o, np.ndarray):
            out.append(o.copy())
        elif isinstance(o, dict):
            for k in sorted(o, key=str):
                flat(o[k], out)
        elif isinstance(o, (list, tuple)):
            for v in o:
                flat(v, out)
        else:
            out.append(o)
        return out

    for step, op in enumerate(case["ops"]):
        if op["op"] == "sample":
            if n_iter >= 8:
                continue
            n_iter += 1
        sd = (case["seed"] + 7919 * step) % (2**31 - 1)
        with quiet():
            np.random.seed(sd)
            ra = lib_call(call, A, op, what=f"Sampler op {op['op']}")
            np.random.seed(sd)
            rb = lib_call(call, B, op, what=f"Sampler op {op['op']}")
        fa, fb = flat(ra, []), flat(rb, [])
        if len(fa) != len(fb) or any(not same(x, y) for x, y in zip(fa, fb)):
            raise Violation(f"step {step} ({op['op']}): the sampler whose earlier outputs were overwritten by the caller returns something "
                            f"different from its untouched twin", sig={"kind": "output-differs", "op": op["op"]})
        scribble(ra, scribbles)
        diff = snapshots_equal(history_snapshot(A.state), history_snapshot(B.state))
        if diff is not None:
            raise Violation(f"step {step} ({op['op']}): overwriting the returned arrays changed the sampler's internal state ({diff})",
                            sig={"kind": "state-corrupted", "op": op["op"]})
    return {"nontrivial": scribbles[0] > 0 and len(case["ops"]) >= 3,
            "classes": ["iters=%d" % n_iter, "clustering" if case["clustering"] else "noclustering", "mode:" + case["mode"]],
            "sample": {"ops": [o["op"] for o in case["ops"]], "iterations": n_iter, "arrays_scribbled": scribbles[0]}}


CHECKS = [
    Check("statemanager", sm_cases, exec_sm, n={"quick": 3200, "thorough": 40000}, shards={"quick": 16, "thorough": 16}),
    Check("sampler", sampler_cases, exec_sampler, n={"quick": 160, "thorough": 2000}, shards={"quick": 16, "thorough": 16},
          shrink={"quick": True, "thorough": True}),
]
