"""C10 - rescaling the likelihood shifts log-evidence only (metamorphic, paired seeded runs)."""
import numpy as np
from hypothesis import strategies as st

from vlib.core import Violation, lib_call
from vlib.hypo import Check
from vlib.refs import ess_from_logw
from vlib.runs import make_sampler, quiet
from vlib.targets import Target, simple_target_spec
from props.c07 import row_to_cfg

PID = "C10"
LEVEL = "exploration"
RULE = (
    "Hypothesis draws (kernel x resampler x clustering x metric mode {ESS, vv 0.05/0.1/0.3/2} x evaluation mode x d x zero-likelihood region x likelihood width factor {1, 0.1, 0.03}) x case seed x shift c "
    "in +-[1e-3,1e3] (log-uniform, both signs); run A uses logL, run B uses logL+c under the same seed. "
    "Non-trivial = >=3 annealing iterations and |c|>=1. distinct = case hash."
    ' The *_full check draws a complete configuration with vlib.cfggen: every constructor option gets a generated value in every case (d, evaluation mode incl. one/two blobs, zero-likelihood region, narrow target, kernel, resampler, clustering, normalize, cluster_every, n_max_clusters, split_threshold, ess_ratio, ESS/volume-variation metric, n_particles incl. odd, n_steps/n_max_steps, periodic/reflective indices, pool kind, extra likelihood args/kwargs, random_state int/NumPy-int/None); the oracle is the same.'
)
ASSUMPTIONS = [
    "tolerances: beta 1e-12, particles 1e-12 (bit-identical expected), ESS 1e-9 relative, weights 1e-9, logz shift 1e-9*max(1,|c|)",
    "an accept/reject decision can flip when a uniform lands within rounding (~1e-13|c|) of the acceptance probability; a mismatch is "
    "therefore re-tested once with the neighbouring seed and reported only if it fails again",
]


@st.composite
def cases(draw):
    sign = draw(st.sampled_from([-1.0, 1.0]))
    metric = draw(st.sampled_from(["ess", "ess", "vv0.3", "vv2", "vv0.05", "vv0.1"]))
    # an ambitious volume-variation target on a likelihood much narrower than the prior makes the temperature steps shrink to the
    # beta tolerance (bisections then end on the tolerance, not on the metric): generate that corner on purpose. Measured on the
    # unchanged tree: vv0.1 x width factor 0.03 x d=3 ends 4-9 bisections per run on the tolerance at ~2 s per run; vv0.05 does so
    # from d=2 on (5-30 s per run). The class counter 'bisection-ended-on-tolerance' in the evidence shows what was reached.
    narrow = draw(st.sampled_from([0.1, 0.03, 0.03])) if metric in ("vv0.05", "vv0.1") else draw(st.sampled_from([1.0, 1.0, 1.0, 0.1]))
    d = draw(st.integers(1, 3))
    if metric == "vv0.1":
        d = 3
    elif metric == "vv0.05":
        d = min(d, 2)
    return {"row": {"kernel": draw(st.sampled_from(["tpcn", "rwm"])), "resample": draw(st.sampled_from(["mult", "syst"])),
                    "clustering": draw(st.booleans()), "metric": metric, 
                    "mode": draw(st.sampled_from(["vector", "scalar", "blobs", "blobs_f4", "blobs_int"])), "zero": draw(st.booleans()), "d": d,
                    "boundary": draw(st.sampled_from(["none", "none", "periodic", "reflective"]))},
            "c": sign * 10.0 ** draw(st.floats(-3.0, 3.0)), "seed": draw(st.integers(0, 2**31 - 3)), "narrow": narrow,
            # one case in eight: a plateau likelihood (flat on its support; with a zero region: a top-hat) - every finite log-likelihood
            # is bit-for-bit the same number
            "plateau": draw(st.integers(0, 7)) == 0}


def one_run(row, seed, shift, narrow=1.0, plateau=False):
    d = row["d"]
    spec = simple_target_spec(np.random.default_rng(seed), d, row["mode"], zero=row["zero"])
    if plateau:
        spec["lkind"] = ["flat"] * d
    spec["width"] = [w * narrow for w in spec["width"]]  # narrow likelihoods: many tiny temperature steps, bisections end on the beta tolerance
    spec["shift"] = shift
    t = Target.from_spec(spec)
    np.random.seed(seed)
    s = make_sampler(t, row_to_cfg(row, d, seed))
    ended = observe_bisections(s)
    with quiet():
        lib_call(s.run, n_total=96, progress=False, what=f"Sampler.run (logL{'+c' if shift else ''})")
    st_ = s.state
    T = st_.get_history_length()
    w = lib_call(s.posterior, trim_importance_weights=False, return_logw=True, what="posterior")
    return {"T": T, "beta": np.array(st_.get_history("beta"), dtype=float), "logz": np.array(st_.get_history("logz"), dtype=float),
            "ess": np.array(st_.get_history("ess"), dtype=float), "u": [np.asarray(st_.get_history("u", index=i)) for i in range(T)],
            "x": [np.asarray(st_.get_history("x", index=i)) for i in range(T)],
            "logl": [np.asarray(st_.get_history("logl", index=i)) for i in range(T)], "calls": list(st_.get_history("calls")),
            "weights": np.asarray(w[1], dtype=float), "final": float(s.evidence()[0]), "ess_post": ess_from_logw(w[-1]),
            "tol_ended": ended["tol"]}


def observe_bisections(s):
    """Optional observation (measures what the generator reaches, decides nothing): how many volume-variation bisections ended on the
    beta tolerance rather than on the metric. Passes the search function through untouched; absent method = no observation."""
    ended = {"tol": 0}
    rw = getattr(getattr(s, "_core", None), "reweighter", None)
    orig = getattr(rw, "_find_beta_bisection", None)
    if orig is None or getattr(rw, "volume_variation", None) is None:
        return ended

    def wrapper(*a, **k):
        fns = [i for i, v in enumerate(a) if callable(v)]
        if len(fns) != 1 or k or len(a) != 4:
            return orig(*a, **k)
        evals = []
        fn, target = a[fns[0]], a[2]

        def mf(b):
            r = fn(b)
            try:
                evals.append(float(r[0]))
            except Exception:  # noqa
                pass
            return r

        mf.__name__ = getattr(fn, "__name__", "metric_fn")
        out = orig(*[mf if i == fns[0] else v for i, v in enumerate(a)])
        try:
            if getattr(fn, "__name__", "").startswith("volume") and evals and abs(evals[-1] - float(target)) >= 0.01 * float(target):
                ended["tol"] += 1
        except Exception:  # noqa
            pass
        return out

    rw._find_beta_bisection = wrapper
    return ended


def compare(A, B, c):
    if A["T"] != B["T"]:
        return f"number of iterations changes: {A['T']} vs {B['T']}", "iterations"
    if np.max(np.abs(A["beta"] - B["beta"])) > 1e-12:
        k = int(np.argmax(np.abs(A["beta"] - B["beta"])))
        return f"temperature schedule changes at iteration {k + 1}: beta {A['beta'][k]!r} vs {B['beta'][k]!r}", "schedule"
    for i in range(A["T"]):
        for f in ("u", "x"):
            if A[f][i].shape != B[f][i].shape or np.max(np.abs(A[f][i] - B[f][i])) > 1e-12:
                return f"particles ({f}) of iteration {i + 1} change", "particles"
        if np.max(np.abs((B["logl"][i] - A["logl"][i]) - c)) > 1e-9 * max(1.0, abs(c)):
            return f"log-likelihoods of iteration {i + 1} are not shifted by c", "particles"
    if list(A["calls"]) != list(B["calls"]):
        return "likelihood-call counts change", "calls"
    if np.max(np.abs(A["ess"] - B["ess"]) / np.maximum(1.0, np.abs(A["ess"]))) > 1e-9:
        k = int(np.argmax(np.abs(A["ess"] - B["ess"])))
        return f"ESS sequence changes at iteration {k + 1}: {A['ess'][k]!r} vs {B['ess'][k]!r}", "ess"
    if A["weights"].shape != B["weights"].shape or np.max(np.abs(A["weights"] - B["weights"])) > 1e-9:
        return "normalised posterior weights change", "weights"
    dz = B["logz"] - A["logz"] - A["beta"] * c
    if np.max(np.abs(dz)) > 1e-9 * max(1.0, abs(c)):
        k = int(np.argmax(np.abs(dz)))
        return (f"recorded log-evidence at iteration {k + 1} (beta={A['beta'][k]:.6g}) shifts by {B['logz'][k] - A['logz'][k]!r} "
                f"instead of beta*c={A['beta'][k] * c!r}"), "logz-shift"
    if abs(B["final"] - A["final"] - c) > 1e-9 * max(1.0, abs(c)):
        return f"final log-evidence shifts by {B['final'] - A['final']!r} instead of c={c!r}", "final-shift"
    return None, None


def execute(case):
    row, c = case["row"], float(case["c"])
    res = None
    for attempt in (0, 1):
        seed = int(case["seed"]) + attempt
        A = one_run(row, seed, 0.0, case.get("narrow", 1.0), case.get("plateau", False))
        B = one_run(row, seed, c, case.get("narrow", 1.0), case.get("plateau", False))
        msg, kind = compare(A, B, c)
        if msg is None:
            res = A
            break
        if attempt == 0:
            first = (msg, kind)
    else:
        raise Violation(f"adding c={c!r} to the log-likelihood changes the run: {first[0]} (confirmed with the neighbouring seed: {msg})",
                        sig={"kind": first[1]})
    n_anneal = int(np.sum(res["beta"] > 0))
    return {"nontrivial": n_anneal >= 3 and abs(c) >= 1,
            "classes": ["kernel:" + row["kernel"], "clustering" if row["clustering"] else "noclustering", "metric:" + row["metric"],
                        "|c|>=1" if abs(c) >= 1 else "|c|<1", "zero" if row["zero"] else "nozero"] + (["plateau"] if case.get("plateau") else [])
                       + (["bisection-ended-on-tolerance"] if res.get("tol_ended") else []),
            "sample": {"row": row, "c": c, "iterations": res["T"], "final_logz": res["final"]}}


def full_cases():
    from vlib import cfggen

    return st.tuples(cfggen.full_config(allow_extra=False, allow_narrow=False, pools=(None, None, "permuting"), metrics=("ess", "ess", "vv0.3", "vv2")), st.floats(-3.0, 3.0), st.sampled_from([-1.0, 1.0])).map(
        lambda t: dict(t[0], c=t[2] * 10.0 ** t[1]))


def run_full(case, shift):
    from vlib import cfggen

    t = cfggen.make_target(case, shift)
    np.random.seed(case["rs_value"] % 2**31)
    s, _ = cfggen.build(case, target=t, random_state=None)
    with quiet():
        lib_call(s.run, n_total=3 * case["n_particles"], progress=False, what=f"Sampler.run (logL{'+c' if shift else ''})")
    st_ = s.state
    T = st_.get_history_length()
    w = lib_call(s.posterior, trim_importance_weights=False, return_logw=True, what="posterior")
    return {"T": T, "beta": np.array(st_.get_history("beta"), dtype=float), "logz": np.array(st_.get_history("logz"), dtype=float),
            "ess": np.array(st_.get_history("ess"), dtype=float), "u": [np.asarray(st_.get_history("u", index=i)) for i in range(T)],
            "x": [np.asarray(st_.get_history("x", index=i)) for i in range(T)],
            "logl": [np.asarray(st_.get_history("logl", index=i)) for i in range(T)], "calls": list(st_.get_history("calls")),
            "weights": np.asarray(w[1], dtype=float), "final": float(s.evidence()[0])}


def execute_full(case):
    c = float(case["c"])
    first = None
    for attempt in (0, 1):
        cc = dict(case, rs_value=int(case["rs_value"]) + attempt)
        A, B = run_full(cc, 0.0), run_full(cc, c)
        msg, kind = compare(A, B, c)
        if msg is None:
            n_anneal = int(np.sum(A["beta"] > 0))
            return {"nontrivial": n_anneal >= 3 and abs(c) >= 1, "classes": ["metric:" + case["metric"], "mode:" + case["mode"], "pool:%s" % case["pool"]]}
        if attempt == 0:
            first = (msg, kind)
    raise Violation(f"adding c={c!r} to the log-likelihood changes the run: {first[0]} (confirmed with the neighbouring seed: {msg})", sig={"kind": first[1]})


CHECKS = [Check("shift_full", full_cases, execute_full, n={"quick": 32, "thorough": 600}, shards={"quick": 16, "thorough": 16},
                shrink={"quick": False, "thorough": True}),
          Check("shift", cases, execute, n={"quick": 48, "thorough": 1200}, shards={"quick": 16, "thorough": 16},
                shrink={"quick": False, "thorough": True})]
