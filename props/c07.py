"""C07 - every stored or returned particle is a coherent (u, x, logL, blob) record.

Instrumented target (exact per-row arithmetic) => coherence is an exact equality:
x == pt(u), logl == ll(x), blob == blob(x), u in [0,1]^d - after every pipeline step, at commit,
and in everything sample()/posterior()/results() hand back.
"""
import itertools

import numpy as np

from vlib.core import HarnessError, Violation, lib_call
from vlib.lattice import RowCheck
from vlib.runs import core_of, make_sampler, patched_parallel_mcmc, quiet, wrap_method
from vlib.targets import BLOB_MODES, Target, simple_target_spec

PID = "C07"
LEVEL = "exploration"
RULE = (
    "Rows of a seeded covering array (pairwise quick / 3-wise thorough, coverage verified and reported) over kernel x resampler x "
    "clustering x {vectorised, scalar, scalar+blob, scalar+two blobs} x boundary types {none, periodic, reflective, both} x metric {ESS, vv 0.3, vv 2} x "
    "zero-likelihood region on/off x d in {1,2,3,6}; each row is one full Sampler.run on an instrumented target with a case seed. "
    "Non-trivial = a run in which some mutation call had both accepted and rejected walkers. distinct = distinct (row, seed)."
    ' The *_full check draws a complete configuration with vlib.cfggen: every constructor option gets a generated value in every case (d, evaluation mode incl. one/two blobs, zero-likelihood region, narrow target, kernel, resampler, clustering, normalize, cluster_every, n_max_clusters, split_threshold, ess_ratio, ESS/volume-variation metric, n_particles incl. odd, n_steps/n_max_steps, periodic/reflective indices, pool kind, extra likelihood args/kwargs, random_state int/NumPy-int/None); the oracle is the same.'
)
ASSUMPTIONS = [
    "observation by wrapping the run methods of the four step objects, StateManager.commit_current_to_history and parallel_mcmc on the instance/module",
    "the instrumented likelihood is bit-identical in scalar and vectorised form by construction (same Python float arithmetic per row)",
    "coherence_full draws a complete configuration (every constructor option, incl. pools, extra likelihood arguments, random_state types, odd particle counts, narrow likelihoods) from vlib.cfggen",
]


def check_records(t, u, x, logl, blobs, where, need_u=True, llf=None):
    if x is None or logl is None:
        return 0
    x, logl = np.asarray(x, dtype=float), np.asarray(logl, dtype=float)
    n = len(x)
    if len(logl) != n or (u is not None and len(u) != n) or (blobs is not None and len(blobs) != n):
        raise Violation(f"{where}: field lengths differ (x {n}, logl {len(logl)}, u {None if u is None else len(u)}, "
                        f"blobs {None if blobs is None else len(blobs)})", sig={"kind": "lengths", "where": where.split(':')[0]})
    for i in range(n):
        if u is not None:
            ui = np.asarray(u[i], dtype=float)
            if np.any(ui < 0.0) or np.any(ui > 1.0) or not np.all(np.isfinite(ui)):
                raise Violation(f"{where}: particle {i} has unit-cube coordinates {ui.tolist()} outside [0,1]^d",
                                sig={"kind": "u-outside-cube", "where": where.split(':')[0]})
            if not np.array_equal(t.pt(ui), x[i]):
                raise Violation(f"{where}: particle {i}: x={x[i].tolist()} is not the prior transform of its u={ui.tolist()} "
                                f"(pt(u)={t.pt(ui).tolist()})", sig={"kind": "x-not-pt(u)", "where": where.split(':')[0]})
        li = t.ll_row(x[i]) if llf is None else llf(x[i])
        if not (li == logl[i]):
            raise Violation(f"{where}: particle {i}: stored logl={logl[i]!r} but the likelihood at its x is {li!r}",
                            sig={"kind": "logl-mismatch", "where": where.split(':')[0]})
        if blobs is not None:
            if not t.blob_match(x[i], blobs[i]):
                raise Violation(f"{where}: particle {i}: stored blob={blobs[i]!r} but blob(x)={t.blob_vec(x[i])!r}",
                                sig={"kind": "blob-mismatch", "where": where.split(':')[0]})
    return n


def row_to_cfg(row, d, seed=None):
    cfg = dict(sample=row["kernel"], resample=row["resample"], clustering=row["clustering"], n_particles=row.get("n_particles", 24),
               cluster_every=row.get("cluster_every", 1), n_max_clusters=row.get("n_max_clusters"),
               split_threshold=row.get("split_threshold", 1.0), normalize=row.get("normalize", True))
    m = row.get("metric", "ess")
    if m != "ess":
        cfg["volume_variation"] = float(m[2:])
    b = row.get("boundary", "none")
    # which coordinates carry the boundary condition varies with the case seed (not always the first / the last one)
    pi, ri = (0, d - 1) if seed is None else (int(seed) % d, (int(seed) // 7) % d)
    if b == "both" and pi == ri:
        ri = (pi + 1) % d
    if b == "periodic":
        cfg["periodic"] = [pi]
    elif b == "reflective":
        cfg["reflective"] = [ri]
    elif b == "both":
        cfg["periodic"], cfg["reflective"] = [pi], [ri]
    return cfg


class Coherence(RowCheck):
    name = "coherence"
    FACTORS = {
        "kernel": ["tpcn", "rwm"], "resample": ["mult", "syst"], "clustering": [False, True],
        "mode": ["vector", "scalar", "blobs", "blobs2"], "boundary": ["none", "periodic", "reflective", "both"],
        "metric": ["ess", "vv0.3", "vv2"], "zero": [False, True], "d": [1, 2, 3, 6], "n_particles": [24, 17],
    }
    DEFAULTS = {"clustering": False, "boundary": "none", "metric": "ess", "zero": False, "mode": "vector", "kernel": "tpcn",
                "resample": "mult", "d": 1}
    REPEATS = {"quick": 4, "thorough": 3}

    def constraint(self, row):
        return not (row["boundary"] == "both" and row["d"] < 2)

    def execute(self, case):
        row, seed = case["row"], int(case["seed"])
        if not self.constraint(row):
            return {"nontrivial": False, "classes": ["invalid-row-skipped"]}
        d = row["d"]
        rng = np.random.default_rng(seed)
        t = Target.from_spec(simple_target_spec(rng, d, row["mode"], zero=row["zero"]))
        cfg = row_to_cfg(row, d, seed)
        np.random.seed(seed % 2**31)
        s = make_sampler(t, cfg)
        core = core_of(s)
        st = core.state
        stats = {"mixed": 0, "mut_calls": 0, "records": 0, "neginf_replaced": 0}
        blobs_on = row["mode"] in BLOB_MODES

        def cur(where):
            c = st.get_current()
            stats["records"] += check_records(t, c["u"], c["x"], c["logl"], c["blobs"] if blobs_on else None, where)

        wrap_method(core.resampler, "run", after=lambda r, *a, **k: cur("after resample: current state"))
        wrap_method(core.mutator, "run", after=lambda r, *a, **k: cur("after mutate: current state"))
        wrap_method(st, "commit_current_to_history", before=lambda *a, **k: cur("at commit: current state"))

        def obs(kw, res):
            stats["mut_calls"] += 1
            moved = np.any(np.asarray(res[0]) != np.asarray(kw["u"]), axis=1)
            if moved.any() and (~moved).any():
                stats["mixed"] += 1
            check_records(t, res[0], res[1], res[2], res[3] if blobs_on else None, "parallel_mcmc: returned particles")

        with patched_parallel_mcmc(obs), quiet():
            lib_call(s.run, n_total=row.get("n_total", 96), progress=False, what="Sampler.run")
            # one more manual iteration through the public sample() API
            out = lib_call(s.sample, what="Sampler.sample")
        check_records(t, out.get("u"), out.get("x"), out.get("logl"), out.get("blobs") if blobs_on else None, "sample(): returned state")
        T = st.get_history_length()
        for i in range(T):
            stats["records"] += check_records(t, st.get_history("u", index=i), st.get_history("x", index=i), st.get_history("logl", index=i),
                                              st.get_history("blobs", index=i) if blobs_on else None, f"history batch {i}")
        hx = {tuple(r) for r in np.asarray(st.get_history("x", flat=True)).tolist()}
        for rs, tr, rb, rl in itertools.product([False, True], repeat=4):
            o = lib_call(s.posterior, resample=rs, trim_importance_weights=tr, return_blobs=rb, return_logw=rl,
                         what=f"posterior(resample={rs},trim={tr},blobs={rb},logw={rl})")
            x, w, logl = o[0], o[1], o[2]
            b = o[3] if (rb and blobs_on) else None
            where = f"posterior(resample={rs},trim={tr},return_blobs={rb},return_logw={rl}): returned samples"
            check_records(t, None, x, logl, b, where)
            if len(w) != len(x):
                raise Violation(f"{where}: {len(w)} weights for {len(x)} samples", sig={"kind": "lengths", "where": "posterior"})
            if any(tuple(r) not in hx for r in np.asarray(x).tolist()):
                raise Violation(f"{where}: a returned sample is not a stored particle", sig={"kind": "x-not-in-history", "where": "posterior"})
        res = lib_call(s.results, what="Sampler.results")
        for i in range(T):
            check_records(t, res["u"][i], res["x"][i], res["logl"][i], res["blobs"][i] if blobs_on and len(res["blobs"]) else None,
                          f"results(): batch {i}")
        classes = [f"{k}={row[k]}" for k in ("kernel", "clustering", "mode", "boundary", "zero")]
        if stats["mixed"]:
            classes.append("mixed-accept-reject")
        return {"nontrivial": stats["mixed"] > 0, "classes": classes,
                "sample": {"row": row, "seed": seed, "iterations": T, "records_checked": stats["records"], "mutation_calls": stats["mut_calls"]}}


# ----------------------------------------------------------------------------- the same oracle over complete random configurations


def exec_full(case):
    from vlib import cfggen

    np.random.seed(case["rs_value"] % 2**31)
    s, t = cfggen.build(case)
    core = core_of(s)
    st = core.state
    blobs_on = case["mode"] in BLOB_MODES
    llf = lambda xr: cfggen.ll_of(case, t, xr)  # noqa
    stats = {"mixed": 0, "records": 0}

    def cur(where):
        c = st.get_current()
        stats["records"] += check_records(t, c["u"], c["x"], c["logl"], c["blobs"] if blobs_on else None, where, llf=llf)

    wrap_method(core.resampler, "run", after=lambda r, *a, **k: cur("after resample: current state"))
    wrap_method(core.mutator, "run", after=lambda r, *a, **k: cur("after mutate: current state"))
    wrap_method(st, "commit_current_to_history", before=lambda *a, **k: cur("at commit: current state"))

    def obs(kw, res):
        moved = np.any(np.asarray(res[0]) != np.asarray(kw["u"]), axis=1)
        if moved.any() and (~moved).any():
            stats["mixed"] += 1
        check_records(t, res[0], res[1], res[2], res[3] if blobs_on else None, "parallel_mcmc: returned particles", llf=llf)

    with patched_parallel_mcmc(obs), quiet():
        lib_call(s.run, n_total=3 * case["n_particles"], progress=False, what="Sampler.run")
    T = st.get_history_length()
    for i in range(T):
        check_records(t, st.get_history("u", index=i), st.get_history("x", index=i), st.get_history("logl", index=i),
                      st.get_history("blobs", index=i) if blobs_on else None, f"history batch {i}", llf=llf)
    second = case["pool_seed"] % 3 == 0
    # (half of the second lives start cold: the object has run but has not been asked for its posterior yet)
    for rs_, tr in (() if (second and case["pool_seed"] % 2) else itertools.product([False, True], repeat=2)):
        o = lib_call(s.posterior, resample=rs_, trim_importance_weights=tr, return_blobs=True, return_logw=True, what="posterior")
        check_records(t, None, o[0], o[2], o[3] if blobs_on else None, f"posterior(resample={rs_},trim={tr}): returned samples", llf=llf)
    if second:
        # second life of the same object: the checkpoint of a SIBLING run (same configuration, other seed: same extent at the same
        # index) replaces its history; what it returns and what it does next must still be whole records
        import glob
        import os

        from vlib.runs import scratch_dir

        with scratch_dir() as od:
            np.random.seed((case["rs_value"] + 1) % 2**31)
            b, _ = cfggen.build(dict(case, rs_value=case["rs_value"] + 1), output_dir=od)
            with quiet():
                lib_call(b.run, n_total=3 * case["n_particles"], progress=False, save_every=1, what="Sampler.run(save_every=1) [sibling]")
            files = sorted(glob.glob(os.path.join(od, "*.state")))
            if files:
                f = files[(case["pool_seed"] // 3) % len(files)]
                with quiet():
                    lib_call(s.load_state, f, what="Sampler.load_state [sibling checkpoint into a used sampler]")
                for rs_, tr in itertools.product([False, True], repeat=2):
                    o = lib_call(s.posterior, resample=rs_, trim_importance_weights=tr, return_blobs=True, return_logw=True, what="posterior")
                    check_records(t, None, o[0], o[2], o[3] if blobs_on else None,
                                  f"after load_state of a sibling checkpoint into a used sampler: posterior(resample={rs_},trim={tr})", llf=llf)
                with patched_parallel_mcmc(obs), quiet():
                    lib_call(s.sample, what="Sampler.sample [after load_state]")
                for i in range(st.get_history_length()):
                    check_records(t, st.get_history("u", index=i), st.get_history("x", index=i), st.get_history("logl", index=i),
                                  st.get_history("blobs", index=i) if blobs_on else None,
                                  f"after load_state of a sibling checkpoint and one sample(): history batch {i}", llf=llf)
    return {"nontrivial": stats["mixed"] > 0,
            "classes": (["second-life"] if second else []) + ["mode:" + case["mode"], "pool:%s" % case["pool"], "extra:" + case["ll_extra"], "metric:" + case["metric"],
                        "boundary:" + ("both" if case["periodic"] and case["reflective"] else "periodic" if case["periodic"] else "reflective" if case["reflective"] else "none")],
            "sample": cfggen.summary(case)}


def _full_cases():
    from vlib import cfggen

    return cfggen.full_config()


from vlib.hypo import Check  # noqa: E402

CHECKS = [Coherence(),
          Check("coherence_full", _full_cases, exec_full, n={"quick": 64, "thorough": 1200}, shards={"quick": 16, "thorough": 16},
                shrink={"quick": False, "thorough": True})]
