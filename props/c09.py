"""C09 - seeded runs are reproducible and the library never resets the global RNG to a constant.

repro : Sampler(random_state=r) constructed and run twice in one process (arbitrary global draws in between) gives
        bit-identical histories/weights/evidence; a different random_state gives different ones.
stream: META 'the seed in force before still matters' - for seeds a != b, seed(a); op(); r_a = random() and the same with
        b must differ, for op in {GaussianMixture.fit, HierarchicalGaussianMixture.fit/predict, Sampler.sample() at every
        iteration index (twin samplers in bit-identical states), Sampler.run(), posterior(resample=True)}.
"""
import numpy as np
from hypothesis import strategies as st

from vlib.core import Violation, lib_call
from vlib.hypo import Check
from vlib.runs import history_snapshot, make_sampler, quiet, snapshots_equal
from vlib.targets import Target, simple_target_spec
from props.c15 import gen_points, gen_weights

PID = "C09"
LEVEL = "exploration"
RULE = (
    "Hypothesis draws sampler configurations (kernel x resampler x clustering x evaluation mode x d), random_state values, numbers of "
    "interleaved global draws, seeds a != b, iteration indices, and (for the mixture classes) data sets/weights from the C15 generator with "
    "random_state in {None, int}. Non-trivial: repro/stream-sampler = the run performed >= 1 clustering fit; stream-mixture = fit with >= 2 components."
    ' The *_full check draws a complete configuration with vlib.cfggen: every constructor option gets a generated value in every case (d, evaluation mode incl. one/two blobs, zero-likelihood region, narrow target, kernel, resampler, clustering, normalize, cluster_every, n_max_clusters, split_threshold, ess_ratio, ESS/volume-variation metric, n_particles incl. odd, n_steps/n_max_steps, periodic/reflective indices, pool kind, extra likelihood args/kwargs, random_state int/NumPy-int/None); the oracle is the same.'
)
ASSUMPTIONS = [
    "the library draws from numpy's global stream (np.random.*); 'stream state afterwards' is observed through the next np.random.random()",
    "construct -> run happen back to back (no user draws between constructing the sampler and running it)",
]
LABEL_KEYS = ("u", "x", "logl", "blobs", "beta", "logz", "calls", "iter", "ess")


def sampler_cfg(draw):
    return {"kernel": draw(st.sampled_from(["tpcn", "rwm"])), "resample": draw(st.sampled_from(["mult", "syst"])),
            "clustering": draw(st.booleans()), "mode": draw(st.sampled_from(["vector", "scalar", "blobs"])), "d": draw(st.integers(1, 3)),
            "tseed": draw(st.integers(0, 10**6)), "pool": draw(st.sampled_from([None, None, 1, "permuting"]))}


def build(cfg, random_state=None):
    t = Target.from_spec(simple_target_spec(np.random.default_rng(cfg["tseed"]), cfg["d"], cfg["mode"]))
    s = make_sampler(t, dict(sample=cfg["kernel"], resample=cfg["resample"], clustering=cfg["clustering"], n_particles=24,
                             random_state=random_state, pool=cfg.get("pool") if cfg["mode"] != "vector" else None, pool_seed=cfg.get("tseed", 0)))
    return s, t


@st.composite
def repro_cases(draw):
    c = sampler_cfg(draw)
    c.update({"rs": draw(st.integers(0, 2**31 - 1)), "rs_other": draw(st.integers(0, 2**31 - 1)), "k_draws": draw(st.integers(0, 50)),
              "np_seed": draw(st.booleans()),
              "ambient": draw(st.integers(0, 2**31 - 1))})
    return c


def run_and_snapshot(cfg, rs):
    if cfg.get("np_seed"):
        rs = np.int64(rs)  # a NumPy integer is what rng.integers() / SeedSequence.generate_state() hand to users
    s, t = build(cfg, random_state=rs)
    with quiet():
        lib_call(s.run, n_total=96, progress=False, what="Sampler.run")
    snap = history_snapshot(s.state)
    np_state = np.random.get_state()
    o = lib_call(s.posterior, trim_importance_weights=False, what="posterior")
    np.random.set_state(np_state)
    return snap, np.asarray(o[1]), float(s.evidence()[0])


def exec_repro(case):
    if case["rs"] == case["rs_other"]:
        return {"nontrivial": False, "classes": ["equal-seeds-skipped"]}
    np.random.seed(case["ambient"])
    s1, w1, z1 = run_and_snapshot(case, case["rs"])
    np.random.random(case["k_draws"])
    s2, w2, z2 = run_and_snapshot(case, case["rs"])
    diff = snapshots_equal(s1, s2, keys=LABEL_KEYS)
    if diff is not None or not np.array_equal(w1, w2) or z1 != z2:
        raise Violation(f"two constructions with random_state={case['rs']} and identical inputs are not bit-identical "
                        f"({diff or 'weights/evidence differ'}; log-evidence {z1!r} vs {z2!r})", sig={"kind": "not-reproducible"})
    s3, w3, z3 = run_and_snapshot(case, case["rs_other"])
    if snapshots_equal(s1, s3, keys=("u",)) is None:
        raise Violation(f"random_state={case['rs']} and random_state={case['rs_other']} give identical particle histories",
                        sig={"kind": "seed-ignored"})
    return {"nontrivial": bool(case["clustering"]), "classes": ["clustering" if case["clustering"] else "noclustering", "kernel:" + case["kernel"]]}


def full_cases():
    from vlib import cfggen

    return st.tuples(cfggen.full_config(pools=(None, None, "permuting", "executor", 1)), st.integers(0, 2**31 - 1), st.integers(0, 50)).map(
        lambda t: dict(t[0], rs_other=t[1], k_draws=t[2]))


def snap_full(case, rs):
    from vlib import cfggen

    if case["random_state"] == "np":
        rs = np.int64(rs)
    s, t = cfggen.build(case, random_state=rs)
    with quiet():
        lib_call(s.run, n_total=3 * case["n_particles"], progress=False, what="Sampler.run")
    snap = history_snapshot(s.state)
    o = lib_call(s.posterior, trim_importance_weights=False, what="posterior")
    return snap, np.asarray(o[1]), float(s.evidence()[0])


def exec_repro_full(case):
    """reproducibility over complete random configurations (vlib.cfggen)"""
    from vlib import cfggen

    rs, other = int(case["rs_value"]), int(case["rs_other"])
    if rs == other:
        return {"nontrivial": False, "classes": ["equal-seeds-skipped"]}
    np.random.seed(case["pool_seed"])
    s1, w1, z1 = snap_full(case, rs)
    np.random.random(case["k_draws"])
    s2, w2, z2 = snap_full(case, rs)
    diff = snapshots_equal(s1, s2, keys=LABEL_KEYS)
    if diff is not None or not np.array_equal(w1, w2) or z1 != z2:
        raise Violation(f"two constructions with random_state={rs} and identical inputs are not bit-identical "
                        f"({diff or 'weights/evidence differ'}; log-evidence {z1!r} vs {z2!r})", sig={"kind": "not-reproducible"})
    s3, w3, z3 = snap_full(case, other)
    if snapshots_equal(s1, s3, keys=("u",)) is None:
        raise Violation(f"random_state={rs} and random_state={other} give identical particle histories", sig={"kind": "seed-ignored"})
    return {"nontrivial": bool(case["clustering"]) or case["metric"] != "ess" or case["pool"] is not None,
            "classes": ["metric:" + case["metric"], "pool:%s" % case["pool"], "mode:" + case["mode"], "kernel:" + case["kernel"]],
            "sample": cfggen.summary(case)}


# ----------------------------------------------------------------------------- stream dependence: mixture classes


@st.composite
def mix_cases(draw):
    d = draw(st.integers(1, 4))
    return {"d": d, "n": draw(st.integers(4 * d + 4, 150)), "geometry": draw(st.sampled_from(["separated", "overlapping", "nested", "duplicated", "all-equal"])),
            "logscale": 0.0, "wfam": draw(st.sampled_from(["uniform", "u01", "lognormal", "halfzero", "one-point"])), "sigma": 1.0,
            "seed": draw(st.integers(0, 2**31 - 1)), "op": draw(st.sampled_from(["gmm.fit", "hgm.fit", "hgm.fit+predict"])),
            "K": draw(st.integers(1, 3)), "rs": draw(st.one_of(st.none(), st.integers(0, 10**6), st.just(42))),
            "a": draw(st.integers(0, 2**31 - 1)), "b": draw(st.integers(0, 2**31 - 1))}


def exec_mix(case):
    from tempest.cluster import GaussianMixture, HierarchicalGaussianMixture

    if case["a"] == case["b"]:
        return {"nontrivial": False, "classes": ["equal-seeds-skipped"]}
    X, rng = gen_points(case)
    w = gen_weights(case, len(X), rng)
    after = []
    for sd in (case["a"], case["b"]):
        np.random.seed(sd)
        if case["op"] == "gmm.fit":
            lib_call(GaussianMixture(n_components=case["K"], random_state=case["rs"]).fit, X.copy(), w.copy(), what="GaussianMixture.fit")
        else:
            h = HierarchicalGaussianMixture(normalize=True)
            lib_call(h.fit, X.copy(), w.copy(), what="HierarchicalGaussianMixture.fit")
            if case["op"].endswith("predict"):
                lib_call(h.predict, X[:5].copy(), what="HierarchicalGaussianMixture.predict")
        after.append(float(np.random.random()))
    if after[0] == after[1]:
        raise Violation(f"after {case['op']} the next global random number is {after[0]!r} whether the stream was seeded with "
                        f"{case['a']} or {case['b']}: the operation reset the process-wide generator to a fixed value",
                        sig={"kind": "global-stream-reset", "op": case["op"].split('.')[0]})
    return {"nontrivial": case["op"] != "gmm.fit" or case["K"] >= 2, "classes": ["op:" + case["op"], "rs:" + ("None" if case["rs"] is None else "int")]}


# ----------------------------------------------------------------------------- stream dependence: sampler (twins)


@st.composite
def twin_cases(draw):
    c = sampler_cfg(draw)
    c.update({"common": draw(st.integers(0, 2**31 - 1)), "a": draw(st.integers(0, 2**31 - 1)), "b": draw(st.integers(0, 2**31 - 1)),
              "t_div": draw(st.integers(0, 9)), "op": draw(st.sampled_from(["sample", "sample", "run", "posterior", "run_save", "run_save"])),
              "rs": draw(st.one_of(st.none(), st.integers(0, 10**6), st.integers(0, 10**6)))})
    return c


class seed_watch:
    """records every numpy.random.seed(<not None>) made while it is active: the direct observation of 'the process-wide generator
    was reset to a fixed value' (the indirect one - the next random number is the same for two different seeds - only sees a
    reset that happens to be the last random event of the operation)"""

    def __enter__(self):
        self.calls, self.orig = [], np.random.seed

        def seed(*a, **k):
            if (a and a[0] is not None) or k.get("seed") is not None:
                self.calls.append(a[0] if a else k.get("seed"))
            return self.orig(*a, **k)

        np.random.seed = seed
        return self

    def __exit__(self, *exc):
        np.random.seed = self.orig
        return False


def exec_twin(case):
    if case["a"] == case["b"]:
        return {"nontrivial": False, "classes": ["equal-seeds-skipped"]}
    outs = []
    n_fits = 0
    for sd in (case["a"], case["b"]):
        np.random.seed(case["common"])
        s, t = build(case, random_state=case.get("rs"))  # a sampler constructed with its own random_state must not re-apply it later
        core = s._core
        core._initialize_fresh()
        np.random.seed(sd if case["op"] in ("run", "run_save") else case["common"])
        with quiet(), seed_watch() as watch:
            if case["op"] == "sample":
                for _ in range(case["t_div"]):
                    lib_call(s.sample, what="Sampler.sample")
                pre = history_snapshot(s.state)
                watch.orig(sd)
                for _ in range(2):
                    lib_call(s.sample, what="Sampler.sample")
                T = s.state.get_history_length()
                new = [np.asarray(s.state.get_history("u", index=i)) for i in range(case["t_div"], T)]
                betas = [float(b) for b in s.state.get_history("beta")][case["t_div"]:]
            elif case["op"] in ("run", "run_save"):
                pre = None
                watch.orig(sd)
                if case["op"] == "run_save":  # writing checkpoints on the way must not touch the stream either
                    from vlib.runs import scratch_dir

                    with scratch_dir() as od:
                        object.__setattr__(s._core.config, "output_dir", __import__("pathlib").Path(od))
                        lib_call(s.run, n_total=72, progress=False, save_every=1 + case["t_div"] % 3, what="Sampler.run(save_every=...)")
                else:
                    lib_call(s.run, n_total=72, progress=False, what="Sampler.run")
                new = [np.asarray(s.state.get_history("u", flat=True))]
                betas = [1.0]
            else:
                lib_call(s.run, n_total=72, progress=False, what="Sampler.run")
                pre = history_snapshot(s.state)
                watch.orig(sd)
                o = lib_call(s.posterior, resample=True, trim_importance_weights=False, what="posterior(resample=True)")
                new = [np.asarray(o[0])]
                betas = [1.0]
        if watch.calls:
            raise Violation(f"Sampler.{case['op']} called numpy.random.seed({watch.calls[0]!r}) {len(watch.calls)} time(s) after construction: the "
                            f"process-wide generator was reset to a fixed value in the middle of the operation",
                            sig={"kind": "global-stream-reset", "op": "sampler"})
        outs.append((pre, new, float(np.random.random()), betas))
        if case["clustering"]:
            n_fits += 1
    (p1, n1, r1, b1), (p2, n2, r2, b2) = outs
    if p1 is not None and snapshots_equal(p1, p2, keys=LABEL_KEYS) is not None:
        raise Violation("twin samplers driven with identical seeds are not in identical states (non-determinism)", sig={"kind": "twin-prefix"})
    if r1 == r2:
        raise Violation(f"after Sampler.{case['op']} (iteration index {case['t_div']}) the next global random number is {r1!r} for both "
                        f"seeds {case['a']} and {case['b']}: the iteration reset the process-wide generator", sig={"kind": "global-stream-reset", "op": "sampler"})
    # systematic resampling of (near-)uniform weights returns the same index set for every offset, so identical
    # posterior(resample=True) outputs are legitimate; for iterations/runs identical batches mean replayed innovations
    same = [np.array_equal(x, y) for x, y in zip(n1, n2)] if case["op"] != "posterior" else []
    if any(same):
        k = same.index(True)
        raise Violation(f"Sampler.{case['op']}: output {k} after the seeds diverged ({case['a']} vs {case['b']}) is bit-identical in both twins "
                        f"(beta={b1[k] if k < len(b1) else None}): the same innovations were replayed", sig={"kind": "innovations-replayed", "op": "sampler"})
    classes = ["op:" + case["op"], "clustering" if case["clustering"] else "noclustering"]
    post_clust = case["clustering"] and any(b > 0 for b in b1)
    return {"nontrivial": bool(post_clust), "classes": classes + (["after-clustering-fit"] if post_clust else [])}


CHECKS = [
    Check("repro_full", full_cases, exec_repro_full, n={"quick": 32, "thorough": 600}, shards={"quick": 16, "thorough": 16},
          shrink={"quick": False, "thorough": True}),
    Check("repro", repro_cases, exec_repro, n={"quick": 32, "thorough": 400}, shards={"quick": 16, "thorough": 16},
          shrink={"quick": False, "thorough": True}),
    Check("stream_mixture", mix_cases, exec_mix, n={"quick": 320, "thorough": 4000}, shards={"quick": 16, "thorough": 16}),
    Check("stream_sampler", twin_cases, exec_twin, n={"quick": 64, "thorough": 800}, shards={"quick": 16, "thorough": 16},
          shrink={"quick": False, "thorough": True}),
]
