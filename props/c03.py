"""C03 - mutation kernels leave the tempered target invariant (detailed balance).

(a) kernel_exact : the proposal law and the acceptance probability, exactly, under scripted randomness (numpy.random.gamma/randn/rand
    replaced by strategy-drawn values): _propose == reference formula, _compute_acceptance_factor == SciPy multivariate-t log-density
    ratio, one full parallel_mcmc iteration == reference Metropolis update with all four fields moved together.
(b) invariance    : statistical, through the real parallel_mcmc - M particles start exactly in the tempered target, take the kernel's
    steps; for test functions f the paired differences f(u') - f(u) must have mean zero (two-stage z-test).
"""
import math

import numpy as np
from hypothesis import strategies as st
from scipy import stats
from scipy.stats import multivariate_t

from vlib.core import HarnessError, Recorder, Violation, lib_call
from vlib.hypo import Check, guarded

PID = "C03"
LEVEL = "exploration"
RULE = (
    "kernel_exact: Hypothesis draws (kernel, d in 1..8, K in 1..3 modes with means in the cube, SPD scales A A^T + eps I of condition <= 1e4, nu in "
    "[0.5,1e6], walker positions, labels, periodic/reflective index subsets, step sizes sigma in (0,1) resp. (0,3), beta in (0,1]) and scripts every "
    "gamma / normal / uniform variate. Non-trivial = K>=2 or a boundary index set non-empty or nu<30 (for the composition part: at least one "
    "accepted and one rejected walker). invariance: generated cells (kernel, d in 1..3, beta, product target of truncated normals / von Mises / "
    "flat sampled exactly, boundary type per coordinate, K in 1..3 modes, labels independent of position or assigned by position, n_max in {1,3}); "
    "non-trivial = acceptance rate in (0.05,0.95) and, for boundary classes, >= 1% of walkers within one proposal length of a wall/seam."
)
ASSUMPTIONS = [
    "scripted randomness replaces numpy.random.gamma / randn / rand / standard_normal / normal / random on the module; a kernel that draws elsewhere yields exit 2",
    "statistical part: stage 1 alpha=1e-6 per test function (Bonferroni over the functions of a cell), stage 2 re-run with fresh seeds and 2M particles at alpha=1e-4, same sign required",
    "proposals that leave the cube through a hard wall are only required not to be accepted in the exact part; whether the kernel as a whole is invariant there is decided by the statistical part",
]

# ----------------------------------------------------------------------------- scripted randomness


class Script:
    def __init__(self, gammas, normals, uniforms):
        self.g, self.z, self.r = list(gammas), list(normals), list(uniforms)
        self.log = []
        self.saved = {}

    def _take(self, pool, n, what):
        if len(pool) < n:
            raise HarnessError(f"scripted randomness exhausted ({what})")
        out = pool[:n]
        del pool[:n]
        return out

    def gamma(self, shape, scale=1.0, size=None):
        n = 1 if size is None else int(np.prod(size))
        v = np.array(self._take(self.g, n, "gamma"))
        self.log.append(("gamma", np.array(shape, dtype=float).copy(), np.array(scale, dtype=float).copy(), v.copy()))
        out = v * scale
        return float(out[0]) if size is None and np.ndim(scale) == 0 else out.reshape(np.shape(scale) if size is None else size)

    def randn(self, *shape):
        n = int(np.prod(shape)) if shape else 1
        v = np.array(self._take(self.z, n, "normal"))
        self.log.append(("normal", v.copy()))
        return float(v[0]) if not shape else v.reshape(shape)

    def standard_normal(self, size=None):
        return self.randn(*([] if size is None else np.atleast_1d(size).tolist()))

    def normal(self, loc=0.0, scale=1.0, size=None):
        return loc + scale * self.standard_normal(size)

    def rand(self, *shape):
        n = int(np.prod(shape)) if shape else 1
        v = np.array(self._take(self.r, n, "uniform"))
        self.log.append(("uniform", v.copy()))
        return float(v[0]) if not shape else v.reshape(shape)

    def random(self, size=None):
        return self.rand(*([] if size is None else np.atleast_1d(size).tolist()))

    def __enter__(self):
        for name in ("gamma", "randn", "standard_normal", "normal", "rand", "random", "random_sample"):
            self.saved[name] = getattr(np.random, name)
            setattr(np.random, name, getattr(self, name if name != "random_sample" else "random"))
        return self

    def __exit__(self, *a):
        for name, f in self.saved.items():
            setattr(np.random, name, f)
        return False


# ----------------------------------------------------------------------------- references


def ref_fold(v, periodic, reflective):
    v = np.array(v, dtype=float)
    for j in periodic:
        v[j] = v[j] - math.floor(v[j])
    for j in reflective:
        m = v[j] - 2.0 * math.floor(v[j] / 2.0)
        v[j] = m if m <= 1.0 else 2.0 - m
    return v


def inside(v, periodic, reflective):
    return all(0.0 <= v[j] <= 1.0 for j in range(len(v)) if j not in periodic and j not in reflective)


def ref_proposal(kernel, u, mu, L, Sinv, nu, sigma, g, z, periodic, reflective):
    d = len(u)
    if kernel == "tpcn":
        diff = u - mu
        delta = float(diff @ Sinv @ diff)
        s = 1.0 / (g * 2.0 / (nu + delta))  # g is the scripted *standard* gamma variate; the kernel asks for scale 2/(nu+delta)
        raw = mu + math.sqrt(1.0 - sigma**2) * diff + sigma * math.sqrt(s) * (L @ z)
    else:
        raw = u + sigma * (L @ z)
    return ref_fold(raw, periodic, reflective), raw


def log_q_tpcn(u, up, mu, Sigma, nu, sigma):
    """closed-form proposal density of the reference tpCN move (interior): multivariate t with nu+d dof."""
    d = len(u)
    Sinv = np.linalg.inv(Sigma)
    delta = float((u - mu) @ Sinv @ (u - mu))
    loc = mu + math.sqrt(1 - sigma**2) * (u - mu)
    shape = sigma**2 * (nu + delta) / (nu + d) * Sigma
    return float(multivariate_t.logpdf(up, loc=loc, shape=shape, df=nu + d))


def make_modes(case):
    from tempest.modes import ModeStatistics

    d, K = case["d"], case["K"]
    rng = np.random.default_rng(case["mseed"])
    mus, covs, nus = [], [], []
    for k in range(K):
        A = rng.normal(size=(d, d))
        Q, _ = np.linalg.qr(A)
        ev = 10.0 ** rng.uniform(-4, -4 + case["logcond"], d) if d > 1 else np.array([10.0 ** rng.uniform(-4, -1)])
        covs.append((Q * ev) @ Q.T + 1e-12 * np.eye(d))
        mus.append(rng.uniform(0.1, 0.9, d))
        nus.append(float(case["nus"][k]))
    return ModeStatistics(np.array(mus), np.array(covs), np.array(nus))


@st.composite
def exact_cases(draw):
    d = draw(st.one_of(st.integers(1, 4), st.integers(1, 8)))
    K = draw(st.integers(1, 3))
    n = draw(st.integers(1, 5))
    kinds = [draw(st.sampled_from(["hard", "hard", "periodic", "reflective"])) for _ in range(d)]
    return {"kernel": draw(st.sampled_from(["tpcn", "rwm"])), "d": d, "K": K, "n": n, "mseed": draw(st.integers(0, 10**6)),
            "logcond": draw(st.floats(0.0, 4.0)), "nus": [draw(st.one_of(st.floats(0.5, 30.0), st.sampled_from([1.0, 1e6, 200.0]))) for _ in range(K)],
            "u": [[draw(st.floats(0.02, 0.98)) for _ in range(d)] for _ in range(n)], "labels": [draw(st.integers(0, K - 1)) for _ in range(n)],
            "kinds": kinds, "sigma": [draw(st.floats(0.01, 0.99)) for _ in range(K)], "sigma_scale_rwm": draw(st.floats(0.05, 3.0)),
            "beta": draw(st.one_of(st.floats(0.01, 1.0), st.just(1.0))),
            "g": [draw(st.floats(0.05, 8.0)) for _ in range(n)], "z": [[draw(st.floats(-3.0, 3.0)) for _ in range(d)] for _ in range(n)],
            "r": [draw(st.floats(0.0, 1.0, exclude_max=True)) for _ in range(n)], "blobs": draw(st.booleans()),
            "ll_width": draw(st.floats(0.05, 0.5))}


def ll_factory(case):
    w = float(case["ll_width"])

    def ll(x):
        x = np.atleast_2d(np.asarray(x, dtype=float))
        v = -0.5 * np.sum(((x - 0.45) / w) ** 2, axis=1)
        return v, (7.0 * x[:, 0] + 1.0 if case["blobs"] else None)

    return ll


def exec_exact(case):
    import tempest.mcmc as mc

    kernel, d, K, n = case["kernel"], case["d"], case["K"], case["n"]
    for name in ("TPCNRunner", "RWMRunner", "parallel_mcmc"):
        if not hasattr(mc, name):
            raise HarnessError(f"tempest.mcmc.{name} missing: observation point missing")
    ms = make_modes(case)
    u = np.array(case["u"], dtype=float)
    labels = np.array(case["labels"], dtype=int)
    periodic = [j for j, k in enumerate(case["kinds"]) if k == "periodic"]
    reflective = [j for j, k in enumerate(case["kinds"]) if k == "reflective"]
    ll = ll_factory(case)
    logl, blobs = ll(u)
    beta = float(case["beta"])
    Runner = mc.TPCNRunner if kernel == "tpcn" else mc.RWMRunner
    runner = Runner(u, u.copy(), logl, blobs, labels, beta, ms, ll, lambda v: v.copy(), None, 1, 1,
                    np.array(periodic, dtype=int) if periodic else None, np.array(reflective, dtype=int) if reflective else None, False)
    sig = np.array(case["sigma"]) * (1.0 if kernel == "tpcn" else float(case["sigma_scale_rwm"]) / 0.99)
    occupied = np.unique(labels)
    if hasattr(runner, "sigmas") and np.shape(runner.sigmas) == (K,):
        runner.sigmas = sig.copy()
    elif hasattr(runner, "sigmas") and np.shape(runner.sigmas) == (len(occupied),):
        runner.sigmas = sig[occupied].copy()  # an implementation that keeps step sizes for the occupied clusters only, in label order
    else:
        raise HarnessError("runner.sigmas missing or of unexpected shape: observation point missing")
    Ls = [np.linalg.cholesky(ms.covariances[k]) for k in range(K)]
    Sinvs = [np.linalg.inv(ms.covariances[k]) for k in range(K)]
    n_out, n_in = 0, 0
    # ---- a1: proposal law, one walker at a time
    props = []
    for k in range(n):
        lab = labels[k]
        mu, nu = ms.means[lab], float(ms.degrees_of_freedom[lab])
        g, z = float(case["g"][k]), np.array(case["z"][k], dtype=float)
        want, raw = ref_proposal(kernel, u[k], mu, Ls[lab], Sinvs[lab], nu, sig[lab], g, z, periodic, reflective)
        if not inside(want, periodic, reflective):
            n_out += 1
            props.append(None)
            continue
        n_in += 1
        with Script([g] * 4, list(z) * 4, []) as sc:
            got = np.asarray(lib_call(runner._propose, k, what=f"{Runner.__name__}._propose"), dtype=float)
        if kernel == "tpcn":
            gl = [e for e in sc.log if e[0] == "gamma"]
            if not gl:
                raise Violation("tpCN proposal did not draw its inverse-gamma scale", sig={"kind": "proposal-law", "kernel": kernel})
            delta = float((u[k] - mu) @ Sinvs[lab] @ (u[k] - mu))
            sh, scl = float(np.ravel(gl[0][1])[0]), float(np.ravel(gl[0][2])[0])
            if abs(sh - (d + nu) / 2) > 1e-12 * max(1, sh) or abs(scl - 2.0 / (nu + delta)) > 1e-9 * scl:
                raise Violation(f"tpCN scale variable drawn from Gamma(shape={sh!r}, scale={scl!r}); the t-preconditioned law needs "
                                f"shape=(d+nu)/2={(d + nu) / 2!r}, scale=2/(nu+delta)={2.0 / (nu + delta)!r}", sig={"kind": "proposal-law", "kernel": kernel})
        tol = 1e-10 * (1.0 + np.max(np.abs(raw)))
        if got.shape != (d,) or np.max(np.abs(got - want)) > tol:
            raise Violation(f"{kernel} proposal for walker at {u[k].tolist()} (mode {lab}, sigma {sig[lab]:.4f}, nu {nu:g}, g {g:.4f}, z {z.tolist()}, "
                            f"periodic {periodic}, reflective {reflective}) is {got.tolist()}, reference {want.tolist()}", sig={"kind": "proposal-law", "kernel": kernel})
        props.append(want)
    # ---- a2: acceptance factor
    up = np.array([p if p is not None else u[k] for k, p in enumerate(props)])
    lp, _ = ll(up)
    fac = np.asarray(lib_call(runner._compute_acceptance_factor, up.copy(), lp.copy(), what="_compute_acceptance_factor"), dtype=float)
    want_f = np.zeros(n)
    if kernel == "tpcn":
        for k in range(n):
            lab = labels[k]
            mu, S, nu = ms.means[lab], ms.covariances[lab], float(ms.degrees_of_freedom[lab])
            dl = float((u[k] - mu) @ Sinvs[lab] @ (u[k] - mu))
            dp = float((up[k] - mu) @ Sinvs[lab] @ (up[k] - mu))
            # Student-t log-density ratio log t(u) - log t(u'); normalising constants cancel. Cross-checked with SciPy below.
            want_f[k] = 0.5 * (d + nu) * (math.log1p(dp / nu) - math.log1p(dl / nu))
            if nu < 1e5 and dl < 1e6 and dp < 1e6:
                sp = float(multivariate_t.logpdf(u[k], loc=mu, shape=S, df=nu) - multivariate_t.logpdf(up[k], loc=mu, shape=S, df=nu))
                if abs(sp - want_f[k]) > 1e-6 * (1 + abs(sp)):
                    raise HarnessError(f"reference Student-t ratio disagrees with SciPy: {want_f[k]} vs {sp}")
    if fac.shape != (n,) or np.max(np.abs(fac - want_f)) > 1e-8 * (1 + np.max(np.abs(want_f))):
        k = int(np.argmax(np.abs(fac - want_f))) if fac.shape == (n,) else 0
        raise Violation(f"{kernel} acceptance factor for walker {k} is {fac[k] if fac.shape == (n,) else fac!r}, reference (Student-t density ratio) {want_f[k]!r}",
                        sig={"kind": "acceptance-factor", "kernel": kernel})
    # ---- a2b: the same ModeStatistics object reused by a second kernel call with a different assignment vector of equal length
    if K >= 2:
        labels2 = (labels + 1) % K
        runner2 = Runner(u, u.copy(), logl, blobs, labels2, beta, ms, ll, lambda v: v.copy(), None, 1, 1,
                         np.array(periodic, dtype=int) if periodic else None, np.array(reflective, dtype=int) if reflective else None, False)
        fac2 = np.asarray(lib_call(runner2._compute_acceptance_factor, up.copy(), lp.copy(), what="_compute_acceptance_factor (second call)"), dtype=float)
        want2 = np.zeros(n)
        if kernel == "tpcn":
            for k in range(n):
                lab = labels2[k]
                mu, nu = ms.means[lab], float(ms.degrees_of_freedom[lab])
                dl = float((u[k] - mu) @ Sinvs[lab] @ (u[k] - mu))
                dp = float((up[k] - mu) @ Sinvs[lab] @ (up[k] - mu))
                want2[k] = 0.5 * (d + nu) * (math.log1p(dp / nu) - math.log1p(dl / nu))
        if fac2.shape != (n,) or np.max(np.abs(fac2 - want2)) > 1e-8 * (1 + np.max(np.abs(want2))):
            raise Violation(f"{kernel} acceptance factor of a second kernel call that reuses the same mode statistics with other cluster labels is "
                            f"{fac2.tolist()}, reference {want2.tolist()} (state carried over between calls)", sig={"kind": "acceptance-factor", "kernel": kernel})
    # ---- a4: oracle self-check (reference proposal is reversible for the Student-t, interior, no folding)
    if kernel == "tpcn" and not periodic and not reflective:
        for k in range(n):
            if props[k] is None:
                continue
            lab = labels[k]
            mu, S, nu = ms.means[lab], ms.covariances[lab], float(ms.degrees_of_freedom[lab])
            if nu > 1e4:
                continue
            lhs = multivariate_t.logpdf(u[k], loc=mu, shape=S, df=nu) + log_q_tpcn(u[k], up[k], mu, S, nu, sig[lab])
            rhs = multivariate_t.logpdf(up[k], loc=mu, shape=S, df=nu) + log_q_tpcn(up[k], u[k], mu, S, nu, sig[lab])
            if abs(lhs - rhs) > 1e-6 * (1 + abs(lhs)):
                raise HarnessError(f"oracle self-check failed: reference tpCN proposal not reversible for the Student-t ({lhs} vs {rhs})")
    # ---- a3: composition through the public parallel_mcmc (d == 1: exactly one iteration)
    mixed = False
    if d == 1:
        sig0 = min(2.38, 0.99) if kernel == "tpcn" else 2.38
        gs, zs, want_u, acc = [], [], u.copy(), np.zeros(n, dtype=bool)
        ok = True
        for k in range(n):
            lab = labels[k]
            g, z = float(case["g"][k]), np.array(case["z"][k], dtype=float)
            w_, raw = ref_proposal(kernel, u[k], ms.means[lab], Ls[lab], Sinvs[lab], float(ms.degrees_of_freedom[lab]), sig0, g, z, periodic, reflective)
            if not inside(w_, periodic, reflective):
                ok = False  # how an out-of-cube proposal is disposed of is the statistical part's subject
                break
            gs.append(g)
            zs.extend(z.tolist())
            lpk = float(ll(w_[None, :])[0][0])
            f = 0.0
            if kernel == "tpcn":
                lab_mu, nu = ms.means[lab], float(ms.degrees_of_freedom[lab])
                dl = float((u[k] - lab_mu) @ Sinvs[lab] @ (u[k] - lab_mu))
                dp = float((w_ - lab_mu) @ Sinvs[lab] @ (w_ - lab_mu))
                f = 0.5 * (d + nu) * (math.log1p(dp / nu) - math.log1p(dl / nu))
            a = min(1.0, math.exp(min(50.0, beta * (lpk - float(logl[k])) + f)))
            if float(case["r"][k]) < a:
                acc[k] = True
                want_u[k] = w_
            if abs(float(case["r"][k]) - a) < 1e-9:
                ok = False  # decision within rounding of the threshold: not decidable exactly
        if ok:
            counter = {"pts": 0}

            def ll_counted(x):
                counter["pts"] += len(np.atleast_2d(x))
                return ll(x)

            with Script(gs, zs, list(case["r"])) as sc:
                out = lib_call(mc.parallel_mcmc, u=u.copy(), x=u.copy(), logl=logl.copy(), blobs=None if blobs is None else blobs.copy(),
                               assignments=labels.copy(), beta=beta, mode_stats=ms, log_likelihood=ll_counted, prior_transform=lambda v: v.copy(),
                               progress_bar=None, n_steps=1, n_max=1, sample=kernel,
                               periodic=np.array(periodic, dtype=int) if periodic else None,
                               reflective=np.array(reflective, dtype=int) if reflective else None, verbose=False, what="parallel_mcmc")
            u2, x2, l2, b2, _, _, steps, ncalls = out
            if int(steps) != 1:
                raise HarnessError(f"parallel_mcmc(n_steps=1, n_max=1, d=1) performed {steps} iterations; the composition check assumes one")
            wl, wb = ll(want_u)
            if np.max(np.abs(np.asarray(u2) - want_u)) > 1e-10:
                k = int(np.argmax(np.abs(np.asarray(u2) - want_u).sum(1)))
                raise Violation(f"one {kernel} iteration (beta={beta:.4f}): walker {k} ends at {np.asarray(u2)[k].tolist()}, the reference Metropolis update "
                                f"({'accept' if acc[k] else 'reject'}, r={case['r'][k]:.6f}) gives {want_u[k].tolist()}", sig={"kind": "metropolis-update", "kernel": kernel})
            if not np.array_equal(np.asarray(x2), np.asarray(u2)) or np.max(np.abs(np.asarray(l2) - wl)) > 1e-9 * (1 + np.max(np.abs(wl))):
                raise Violation("accepted/rejected walkers: x or logl did not move together with u", sig={"kind": "fields-not-joint", "kernel": kernel})
            if blobs is not None and (b2 is None or np.max(np.abs(np.asarray(b2) - wb)) > 1e-9):
                raise Violation("accepted/rejected walkers: blobs did not move together with u", sig={"kind": "fields-not-joint", "kernel": kernel})
            if int(ncalls) != counter["pts"]:
                raise Violation(f"parallel_mcmc reports {ncalls} likelihood calls, the likelihood saw {counter['pts']} points", sig={"kind": "calls", "kernel": kernel})
            mixed = bool(acc.any() and (~acc).any())
    nt = K >= 2 or bool(periodic or reflective) or min(case["nus"][:K]) < 30
    classes = ["kernel:" + kernel, "d=%d" % d, "K=%d" % K, "folded" if (periodic or reflective) else "no-fold",
               "composition-mixed" if mixed else "composition-none-or-uniform", "proposal-outside" if n_out else "all-inside"]
    return {"nontrivial": nt, "classes": classes}


# ----------------------------------------------------------------------------- (b) statistical invariance


def cell_from_seed(seed, force=None):
    rng = np.random.default_rng(seed)
    kernel = ["tpcn", "rwm"][int(rng.integers(0, 2))]
    d = int(rng.integers(1, 4))
    cell = {"kernel": kernel, "d": d, "beta": float(rng.choice([1.0, 0.6, 0.25])), "n_max": int(rng.choice([1, 3])),
            "K": int(rng.integers(1, 4)), "labels": ["random", "random", "position"][int(rng.integers(0, 3))], "seed": int(seed)}
    coords = []
    for j in range(d):
        kind = ["hard", "hard", "periodic", "reflective"][int(rng.integers(0, 4))]
        fam = "vonmises" if kind == "periodic" else ["truncnorm", "truncnorm", "flat"][int(rng.integers(0, 3))]
        near = bool(rng.random() < 0.6)  # does the target put mass near the wall / seam?
        if kernel == "tpcn" and kind in ("periodic", "reflective"):
            # finding K1 (tpCN + folding) is cordoned off: only ~15% of such cells let proposals actually cross the seam/wall
            near = bool(rng.random() < 0.15)
        if fam == "vonmises":
            c = {"fam": fam, "kappa": float(rng.uniform(4, 40)), "u0": float(rng.choice([0.0, 0.03, 0.5]) if near else rng.uniform(0.35, 0.65))}
        elif fam == "truncnorm":
            m = float(rng.choice([-0.02, 0.0, 0.05, 0.97, 1.0])) if near else float(rng.uniform(0.35, 0.65))
            c = {"fam": fam, "m": m, "s": float(10 ** rng.uniform(-1.5, -0.8))}
        else:
            c = {"fam": fam}
        c["kind"] = kind
        coords.append(c)
    cell["coords"] = coords
    if force:
        cell.update(force)
    return cell


def sample_target(cell, M, rng):
    d, beta = cell["d"], cell["beta"]
    u = np.empty((M, d))
    for j, c in enumerate(cell["coords"]):
        if c["fam"] == "vonmises":
            th = stats.vonmises.rvs(c["kappa"] * beta, size=M, random_state=rng)
            u[:, j] = (th / (2 * np.pi) + c["u0"]) % 1.0
        elif c["fam"] == "truncnorm":
            sd = c["s"] / math.sqrt(beta)
            a, b = (0 - c["m"]) / sd, (1 - c["m"]) / sd
            u[:, j] = stats.truncnorm.ppf(rng.random(M), a, b, loc=c["m"], scale=sd)
        else:
            u[:, j] = rng.random(M)
    return np.clip(u, 0.0, 1.0)


def cell_loglike(cell):
    def ll(x):
        x = np.atleast_2d(np.asarray(x, dtype=float))
        v = np.zeros(len(x))
        for j, c in enumerate(cell["coords"]):
            if c["fam"] == "vonmises":
                v = v + c["kappa"] * np.cos(2 * np.pi * (x[:, j] - c["u0"]))
            elif c["fam"] == "truncnorm":
                v = v - 0.5 * ((x[:, j] - c["m"]) / c["s"]) ** 2
        return v, None

    return ll


def cell_modes(cell, u, rng):
    from tempest.modes import ModeStatistics

    d, K = cell["d"], cell["K"]
    sd = u.std(0) + 1e-3
    mus = np.array([u.mean(0) + rng.normal(0, 0.7, d) * sd for _ in range(K)])
    covs = np.array([np.diag((sd * rng.uniform(0.5, 1.5, d)) ** 2) for _ in range(K)])
    nus = np.array([float(rng.choice([2.0, 5.0, 50.0, 1e6])) for _ in range(K)])
    return ModeStatistics(mus, covs, nus)


def nearest_mode(ms, u):
    d2 = np.stack([np.einsum("ij,jk,ik->i", u - ms.means[k], ms.inv_covariances[k], u - ms.means[k]) for k in range(ms.K)], axis=1)
    return np.argmin(d2, axis=1)


def test_functions(cell, m):
    fs = []
    for j, c in enumerate(cell["coords"]):
        if c["kind"] == "periodic":
            for k in (1, 2):
                fs.append((f"sin(2pi*{k}*u{j})", lambda v, j=j, k=k: np.sin(2 * np.pi * k * v[:, j])))
                fs.append((f"cos(2pi*{k}*u{j})", lambda v, j=j, k=k: np.cos(2 * np.pi * k * v[:, j])))
        else:
            fs.append((f"u{j}", lambda v, j=j: v[:, j]))
            fs.append((f"u{j}^2", lambda v, j=j: v[:, j] ** 2))
            fs.append((f"1[u{j}<median]", lambda v, j=j: (v[:, j] < m[j]).astype(float)))
            fs.append((f"1[u{j}<0.02]", lambda v, j=j: (v[:, j] < 0.02).astype(float)))
            fs.append((f"1[u{j}>0.98]", lambda v, j=j: (v[:, j] > 0.98).astype(float)))
    if cell["d"] > 1:
        fs.append(("u0*u1", lambda v: v[:, 0] * v[:, 1]))
    return fs


def run_cell(cell, M, seed):
    import tempest.mcmc as mc

    rng = np.random.default_rng([cell["seed"], seed])
    u = sample_target(cell, M, rng)
    ll = cell_loglike(cell)
    # the kernel (mode statistics) is part of the cell: the same for every stage / replay, only particles and innovations change
    rng_modes = np.random.default_rng([cell["seed"], 424242])
    ms = cell_modes(cell, sample_target(cell, 4000, rng_modes), rng_modes)
    lab = rng.integers(0, ms.K, M) if cell["labels"] == "random" else nearest_mode(ms, u)
    per = [j for j, c in enumerate(cell["coords"]) if c["kind"] == "periodic"]
    ref = [j for j, c in enumerate(cell["coords"]) if c["kind"] == "reflective"]
    np.random.seed(int(rng.integers(0, 2**31 - 1)))
    # how many proposals the boundary map actually folds (measured, not guessed from the walkers' distance to the seam: a heavy-tailed
    # tpCN proposal reaches the seam from many standard deviations away)
    fold = {"n": 0, "folded": 0}
    orig_map = getattr(mc, "apply_boundary_conditions", None)
    if orig_map is not None and (per or ref):
        def counting_map(v, *a, **k):
            r = orig_map(v, *a, **k)
            fold["n"] += 1
            fold["folded"] += int(not np.array_equal(np.asarray(r), np.asarray(v)))
            return r

        mc.apply_boundary_conditions = counting_map
    try:
        out = _call_kernel(mc, u, ll, lab, cell, ms, per, ref)
    finally:
        if orig_map is not None:
            mc.apply_boundary_conditions = orig_map
    return _summarise(cell, ms, u, out, M, fold)


def _call_kernel(mc, u, ll, lab, cell, ms, per, ref):
    return mc.parallel_mcmc(u=u.copy(), x=u.copy(), logl=ll(u)[0], blobs=None, assignments=np.asarray(lab, dtype=int), beta=cell["beta"], mode_stats=ms,
                           log_likelihood=ll, prior_transform=lambda v: v, progress_bar=None, n_steps=1, n_max=cell["n_max"], sample=cell["kernel"],
                           periodic=np.array(per, dtype=int) if per else None, reflective=np.array(ref, dtype=int) if ref else None, verbose=False)


def _summarise(cell, ms, u, out, M, fold):
    u2 = np.asarray(out[0])
    moved = np.any(u2 != u, axis=1)
    med = np.median(u, axis=0)
    zs = {}
    for name, f in test_functions(cell, med):
        dd = f(u2) - f(u)
        if np.count_nonzero(dd) < 400:
            continue  # too few informative pairs for the normal approximation (rare-event indicators)
        sd = dd.std(ddof=1)
        zs[name] = float(dd.mean() / (sd / math.sqrt(M))) if sd > 0 else 0.0
    crossing = float(np.mean(nearest_mode(ms, u2) != nearest_mode(ms, u))) if ms.K > 1 else 0.0
    # fraction of walkers within one typical proposal length of a hard wall / seam
    plen = np.sqrt(np.array([ms.covariances[k].diagonal() for k in range(ms.K)]).mean(0))
    near = 0.0
    for j, c in enumerate(cell["coords"]):
        near = max(near, float(np.mean((u[:, j] < plen[j]) | (u[:, j] > 1 - plen[j]))))
    return {"z": zs, "acc": float(moved.mean()), "crossing": crossing, "near_wall": near, "steps": int(out[6]),
            "fold_rate": fold["folded"] / max(fold["n"], 1)}


def classify_cell(cell, info):
    folded = any(c["kind"] in ("periodic", "reflective") for c in cell["coords"])
    # 'folded' = the kernel really folded proposals (measured rate; the walkers' distance to the seam is kept as a second indicator)
    return {"kernel": cell["kernel"], "folded": folded and (info["near_wall"] >= 0.01 or info.get("fold_rate", 0.0) >= 1e-4),
            "hard_wall": any(c["kind"] == "hard" for c in cell["coords"]) and info["near_wall"] >= 0.01,
            "labels": cell["labels"], "crossing": ">1e-3" if info["crossing"] > 1e-3 else "<=1e-3"}


class Invariance:
    name = "invariance"

    def n_tasks(self, tier, seed):
        return 32 if tier == "quick" else 240

    def execute(self, case):
        """stage-2 style execution of one cell (used for replay): case = {cell, M, seed, alpha}"""
        cell = case["cell"]
        info = run_cell(cell, int(case["M"]), int(case["seed"]))
        nf = max(1, len(info["z"]))
        thr = stats.norm.isf(case["alpha"] / nf / 2)
        name, z = max(info["z"].items(), key=lambda kv: abs(kv[1])) if info["z"] else ("none", 0.0)
        if abs(z) > thr:
            cls = classify_cell(cell, info)
            raise Violation(
                f"{cell['kernel']} kernel does not leave its tempered target invariant: E[{name}(u') - {name}(u)] is {z:+.1f} standard errors from 0 "
                f"after {info['steps']} step(s) from M={case['M']} exact draws (beta={cell['beta']}, boundaries {[c['kind'] for c in cell['coords']]}, "
                f"labels {cell['labels']}, K={cell['K']}, acceptance {info['acc']:.2f}, cluster-crossing rate {info['crossing']:.3f})",
                sig={"kind": "not-invariant", **cls}, detail={"z": info["z"]})
        return info

    def run_task(self, pid, tier, seed, shard):
        rec = Recorder(pid, tier, seed)
        cell = cell_from_seed(seed * 100003 + shard)
        M = 20000 if tier == "quick" else 100000
        case1 = {"cell": cell, "M": M, "seed": 1, "alpha": 1e-6}
        try:
            info = guarded(self.execute, case1)
        except Violation as v1:
            case2 = {"cell": cell, "M": 2 * M, "seed": 2, "alpha": 1e-4}
            try:
                info = guarded(self.execute, case2)
                rec.record(self.name, case1, False, ["stage1-flag-not-confirmed"])
                return rec.export()
            except Violation as v2:
                f = rec.classify(self.name, v2)
                if f is not None:
                    rec.known(f, self.name, v2)
                    rec.record(self.name, case2, False, ["known:" + f["id"]])
                else:
                    rec.violation(self.name, v2, case2)
                return rec.export()
        cls = classify_cell(cell, info)
        nt = 0.05 < info["acc"] < 0.95
        rec.record(self.name, case1, nontrivial=nt,
                   classes=["kernel:" + cell["kernel"], "labels:" + cell["labels"], "folded" if cls["folded"] else "not-folded",
                            "hard-wall-active" if cls["hard_wall"] else "hard-wall-inactive", "crossing" + cls["crossing"]],
                   sample={"cell": cell, "M": M, "max_abs_z": max([abs(z) for z in info["z"].values()] + [0.0]), "acceptance": info["acc"],
                           "crossing": info["crossing"], "near_wall": info["near_wall"]})
        return rec.export()


CHECKS = [
    Check("kernel_exact", exact_cases, exec_exact, n={"quick": 2400, "thorough": 30000}, shards={"quick": 16, "thorough": 16}),
    Invariance(),
]
