"""C13 - likelihood evaluation strategy is transparent; calls are counted exactly (differential + invariant)."""
import numpy as np
from hypothesis import strategies as st

from vlib.core import Violation, lib_call
from vlib.hypo import Check
from vlib.runs import core_of, history_snapshot, make_sampler, quiet, snapshots_equal, wrap_method
from vlib.targets import Target, simple_target_spec

PID = "C13"
LEVEL = "exploration"
RULE = (
    "Hypothesis draws (kernel x resampler x clustering x blobs on/off x d x zero-likelihood region x case seed x scripted completion order); "
    "each case runs the same seeded sampler under every evaluation mode of its group - scalar map, vectorised (no blobs), a pool-like object "
    "whose map evaluates items in a scripted permutation, an executor-style object (submit+map) whose futures complete out of order, a real "
    "ThreadPoolExecutor(4), pool=1, and (thorough tier, and 1 quick case in 6) a real worker pool of 2, 3 or 5 processes with a batch size it does or does not divide - and compares. "
    "Non-trivial = >=2 modes compared over >=3 annealing iterations. distinct = case hash."
    ' The *_full check draws a complete configuration with vlib.cfggen: every constructor option gets a generated value in every case (d, evaluation mode incl. one/two blobs, zero-likelihood region, narrow target, kernel, resampler, clustering, normalize, cluster_every, n_max_clusters, split_threshold, ess_ratio, ESS/volume-variation metric, n_particles incl. odd, n_steps/n_max_steps, periodic/reflective indices, pool kind, extra likelihood args/kwargs, random_state int/NumPy-int/None); the oracle is the same.'
)
ASSUMPTIONS = [
    "the instrumented likelihood is pointwise bit-identical in all modes by construction",
    "for a real worker pool the evaluations happen in other processes: 'calls' is compared with the in-process twin whose count was verified",
]
KEYS = ("u", "x", "logl", "blobs", "beta", "logz", "calls", "iter", "ess", "steps", "acceptance", "efficiency")


@st.composite
def cases(draw):
    return {"kernel": draw(st.sampled_from(["tpcn", "rwm"])), "resample": draw(st.sampled_from(["mult", "syst"])),
            "clustering": draw(st.booleans()), "blobs": draw(st.booleans()), "d": draw(st.integers(1, 3)), "zero": draw(st.booleans()),
            "seed": draw(st.integers(0, 2**31 - 2)), "pool_seed": draw(st.integers(0, 10**6)),
            "real_pool": draw(st.integers(0, 5)) == 0,
            # integer pools of a size that does / does not divide the batch
            "pool_size": draw(st.sampled_from([2, 3, 3, 5])), "n_particles": draw(st.sampled_from([16, 16, 15, 17])),
            # extra arguments of the user's likelihood (log_likelihood_args / log_likelihood_kwargs), with defaults that differ
            "ll_extra": draw(st.sampled_from(["none", "none", "args", "kwargs", "both"]))}


class WithExtra:
    """The user's likelihood with an extra positional and an extra keyword parameter whose defaults differ from the configured values."""

    def __init__(self, base, blobs):
        self.base, self.blobs = base, blobs

    def __call__(self, x, add=0.0, mul=1.0):
        r = self.base(x)
        if self.blobs:
            return (r[0] * mul + add, r[1])
        return r * mul + add


def run_mode(case, mode, pool, check_calls=True):
    from tempest import Sampler

    tm = "blobs" if case["blobs"] else mode
    t = Target.from_spec(simple_target_spec(np.random.default_rng(case["seed"]), case["d"], tm, zero=case["zero"]))
    np.random.seed(case["seed"])
    extra = case.get("ll_extra", "none")
    if extra == "none":
        s = make_sampler(t, dict(sample=case["kernel"], resample=case["resample"], clustering=case["clustering"], n_particles=int(case.get("n_particles", 16)), pool=pool,
                                 pool_seed=case["pool_seed"]))
    else:
        from vlib.targets import PermutingPool, ScriptedExecutor

        kw = t.sampler_kwargs()
        kw["log_likelihood"] = WithExtra(t.loglike, case["blobs"])
        if extra in ("args", "both"):
            kw["log_likelihood_args"] = [0.25]
        if extra in ("kwargs", "both"):
            kw["log_likelihood_kwargs"] = {"mul": 0.5}
        pobj = pool
        if pool == "permuting":
            pobj = PermutingPool(case["pool_seed"])
        elif pool == "executor":
            pobj = ScriptedExecutor(case["pool_seed"])
        elif pool == "threads":
            from concurrent.futures import ThreadPoolExecutor

            pobj = ThreadPoolExecutor(4)
        s = Sampler(sample=case["kernel"], resample=case["resample"], clustering=case["clustering"], n_particles=int(case.get("n_particles", 16)), pool=pobj, **kw)
    core = core_of(s)
    st_ = core.state
    label = f"mode={mode},pool={pool!r}"

    def at_commit(*a, **k):
        if check_calls and int(st_.get_current("calls")) != t.n_points:
            raise Violation(f"[{label}] iteration {st_.get_current('iter')}: reported calls={st_.get_current('calls')} but the likelihood "
                            f"was evaluated at {t.n_points} points", sig={"kind": "calls-miscounted"})

    wrap_method(st_, "commit_current_to_history", before=at_commit)
    with quiet():
        lib_call(s.run, n_total=48, progress=False, what=f"Sampler.run [{label}]")
    o = lib_call(s.posterior, trim_importance_weights=False, what="posterior")
    pobj = getattr(core.config, "pool", None)
    if hasattr(pobj, "shutdown"):
        pobj.shutdown()
    return history_snapshot(st_), np.asarray(o[1]), float(s.evidence()[0]), t.n_points


def execute(case, force_real=False):
    modes = [("scalar", None), ("scalar", "permuting"), ("scalar", 1), ("scalar", "executor"), ("scalar", "threads")]
    if not case["blobs"]:
        modes.insert(1, ("vector", None))
        modes.insert(2, ("vector", "permuting"))  # a pool next to a vectorised likelihood must change nothing either
    real = case["real_pool"] or force_real
    if real:
        modes.append(("scalar", int(case.get("pool_size", 2))))
    ref = None
    for mode, pool in modes:
        snap, w, z, npts = run_mode(case, mode, pool, check_calls=not (pool == "threads" or (isinstance(pool, int) and pool > 1)))
        if ref is None:
            ref = (snap, w, z, f"mode={mode},pool={pool!r}")
            continue
        diff = snapshots_equal(ref[0], snap, keys=KEYS)
        if diff is not None or not np.array_equal(ref[1], w) or ref[2] != z:
            raise Violation(f"same seed, pointwise identical likelihood: [{ref[3]}] and [mode={mode},pool={pool!r}] differ "
                            f"({diff or 'weights/evidence'}; log-evidence {ref[2]!r} vs {z!r})", sig={"kind": "mode-dependent"})
    n_anneal = sum(1 for b in ref[0]["history"]["beta"] if b > 0)
    return {"nontrivial": n_anneal >= 3, "classes": ["blobs" if case["blobs"] else "noblobs", "kernel:" + case["kernel"],
                                                     "real-pool" if real else "in-process", "modes=%d" % len(modes)],
            "sample": {"case": {k: case[k] for k in ("kernel", "resample", "clustering", "blobs", "d")}, "modes": [f"{m}/{p}" for m, p in modes],
                       "iterations": len(ref[0]["history"]["beta"])}}


def full_cases():
    from vlib import cfggen

    return cfggen.full_config(modes=("scalar", "scalar", "blobs", "blobs2", "blobs_auto", "blobs_str", "blobs_rec", "blobs_arr", "blobs_f4", "blobs_int"), pools=(None,))


def run_full(case, mode, pool):
    from vlib import cfggen

    c2 = dict(case, mode=mode)
    t = cfggen.make_target(c2)
    np.random.seed(case["rs_value"] % 2**31)
    pobj = pool
    if pool == "threads":
        from concurrent.futures import ThreadPoolExecutor

        pobj = ThreadPoolExecutor(3)
    s, _ = cfggen.build(c2, target=t, pool=pobj)
    core = core_of(s)
    st_ = core.state
    label = f"mode={mode},pool={pool!r}"

    def at_commit(*a, **k):
        if pool != "threads" and int(st_.get_current("calls")) != t.n_points:
            raise Violation(f"[{label}] iteration {st_.get_current('iter')}: reported calls={st_.get_current('calls')} but the likelihood "
                            f"was evaluated at {t.n_points} points", sig={"kind": "calls-miscounted"})

    wrap_method(st_, "commit_current_to_history", before=at_commit)
    with quiet():
        lib_call(s.run, n_total=2 * case["n_particles"], progress=False, what=f"Sampler.run [{label}]")
    o = lib_call(s.posterior, trim_importance_weights=False, what="posterior")
    snap = history_snapshot(st_)
    if pool is None and case["rs_value"] % 2 == 0:
        # the count is part of the state: saved, loaded into another sampler object and continued from there by sample()
        import os

        from vlib.runs import scratch_dir

        with scratch_dir() as od:
            path = os.path.join(od, "state.pkl")
            with quiet():
                lib_call(s.save_state, path, what="Sampler.save_state")
            saved = int(st_.get_current("calls"))
            t2 = cfggen.make_target(c2)
            s2, _ = cfggen.build(c2, target=t2, pool=None)
            with quiet():
                lib_call(s2.load_state, path, what="Sampler.load_state")
                lib_call(s2.sample, what="Sampler.sample [after load_state]")
            got = int(s2.state.get_current("calls"))
            if got != saved + t2.n_points:
                raise Violation(f"[{label}] after load_state() of a state with calls={saved} and one sample() that evaluated the likelihood at "
                                f"{t2.n_points} points the reported calls are {got}, not {saved + t2.n_points}", sig={"kind": "calls-miscounted"})
    if hasattr(pobj, "shutdown"):
        pobj.shutdown()
    return snap, np.asarray(o[1]), float(s.evidence()[0])


def execute_full(case):
    """the same differential over complete random configurations (vlib.cfggen): every constructor option gets a generated value"""
    modes = [(case["mode"], None), (case["mode"], "permuting"), (case["mode"], 1), (case["mode"], "executor"), (case["mode"], "threads")]
    if case["mode"] == "scalar":
        modes[1:1] = [("vector", None), ("vector", "permuting")]
    ref = None
    for mode, pool in modes:
        snap, w, z = run_full(case, mode, pool)
        if ref is None:
            ref = (snap, w, z, f"mode={mode},pool={pool!r}")
            continue
        diff = snapshots_equal(ref[0], snap, keys=KEYS)
        if diff is not None or not np.array_equal(ref[1], w) or ref[2] != z:
            raise Violation(f"same seed, pointwise identical likelihood: [{ref[3]}] and [mode={mode},pool={pool!r}] differ "
                            f"({diff or 'weights/evidence'}; log-evidence {ref[2]!r} vs {z!r})", sig={"kind": "mode-dependent"})
    n_anneal = sum(1 for b in ref[0]["history"]["beta"] if b > 0)
    from vlib import cfggen

    return {"nontrivial": n_anneal >= 3, "classes": ["mode:" + case["mode"], "metric:" + case["metric"], "extra:" + case["ll_extra"],
                                                     "rs:%s" % case["random_state"]], "sample": cfggen.summary(case)}


CHECKS = [Check("modes_full", full_cases, execute_full, n={"quick": 48, "thorough": 800}, shards={"quick": 16, "thorough": 16},
                shrink={"quick": False, "thorough": True}),
          Check("modes", cases, execute, n={"quick": 64, "thorough": 800}, shards={"quick": 16, "thorough": 16},
                shrink={"quick": False, "thorough": True})]
