"""C16 - boundary maps fold every real number into the unit interval correctly.

Oracle: exact rational reference (fractions.Fraction) for v mod 1 and for the
period-2 triangle wave; bit-identity of untouched coordinates and of the input
array; idempotence (0 == 1 identified on periodic coordinates); check_bounds
<=> every non-designated coordinate in [0,1].
"""
import math
from fractions import Fraction

import numpy as np
from hypothesis import strategies as st

from vlib.core import Violation, lib_call
from vlib.hypo import Check

PID = "C16"
LEVEL = "exploration"
RULE = (
    "Hypothesis draws (array shape 1-D/2-D, d in 1..5, periodic/reflective index subsets given as list/ndarray/None, "
    "values from all finite doubles enriched with integers +-k ulp, values adjacent to 0/1/2, +-(2^53+k), +-2^63(1+-eps), "
    "10^U(15,300), subnormals, +-0). Non-trivial = some designated coordinate has |v|>1 or lies within 4 ulp of an integer. "
    "distinct = distinct case hash."
)
ASSUMPTIONS = [
    "periodic and reflective index sets are disjoint and within range (the constructor rejects anything else, C18)",
    "tolerance 2^-51 absolute on folded values (two roundings of at most 2^-53 each are inherent to any float implementation)",
]

TOL = Fraction(1, 2**51)


def shift_ulps(x, k):
    x = float(x)
    for _ in range(abs(k)):
        x = math.nextafter(x, math.inf if k > 0 else -math.inf)
    return x


def values():
    sign = st.sampled_from([-1.0, 1.0])
    return st.one_of(
        st.floats(allow_nan=False, allow_infinity=False),
        st.floats(-4.0, 4.0),
        st.builds(lambda k, j: shift_ulps(float(k), j), st.integers(-9, 9), st.integers(-4, 4)),
        st.builds(lambda s, e, j: shift_ulps(s * 2.0**e, j), sign, st.integers(50, 70), st.integers(-3, 3)),
        st.builds(lambda s, k: s * float(2**53 + k), sign, st.integers(-4, 40)),
        st.builds(lambda s, x: s * 10.0**x, sign, st.floats(15, 300)),
        st.builds(lambda s, x: s * 10.0**x, sign, st.floats(-320, -300)),
        st.sampled_from([0.0, -0.0, 1.0, 2.0, -1.0, 0.5, 1.5, -0.5, 5e-324, -5e-324]),
    )


@st.composite
def cases(draw):
    d = draw(st.integers(1, 5))
    ndim = draw(st.sampled_from([1, 2]))
    n = 1 if ndim == 1 else draw(st.integers(1, 4))
    vals = [[draw(values()) for _ in range(d)] for _ in range(n)]
    kinds = [draw(st.sampled_from(["none", "periodic", "reflective"])) for _ in range(d)]
    per = [i for i, k in enumerate(kinds) if k == "periodic"]
    ref = [i for i, k in enumerate(kinds) if k == "reflective"]
    form = draw(st.sampled_from(["list", "array", "none-if-empty"]))
    draw(st.randoms(use_true_random=False)).shuffle(per)
    # memory layout of a 2-D input: C-ordered, Fortran-ordered, a transposed view of a (d, n) block, a strided view (every other row)
    layout = draw(st.sampled_from(["C", "C", "F", "T", "strided"])) if ndim == 2 else "C"
    return {"ndim": ndim, "vals": vals, "periodic": per, "reflective": ref, "form": form, "layout": layout}


def _idx(lst, form):
    if form == "none-if-empty" and not lst:
        return None
    if form == "array":
        return np.array(lst, dtype=int)
    return list(lst)


def ref_periodic(v):
    f = Fraction(v)
    return f - math.floor(f)


def ref_reflective(v):
    f = Fraction(v)
    m = f - 2 * math.floor(f / 2)
    return m if m <= 1 else 2 - m


def bits(a):
    return np.ascontiguousarray(a, dtype=np.float64).view(np.uint64)


def near_int(v):
    if abs(v) > 2.0**54:
        return True
    r = round(v)
    return abs(v - r) <= 4 * math.ulp(max(abs(v), 1.0))


def execute(case):
    from tempest.mcmc import apply_boundary_conditions, check_bounds

    arr2 = np.array([[float(x) for x in row] for row in case["vals"]], dtype=np.float64)
    arr = arr2[0].copy() if case["ndim"] == 1 else arr2.copy()
    lay = case.get("layout", "C")
    if case["ndim"] == 2 and lay == "F":
        arr = np.asfortranarray(arr)
    elif case["ndim"] == 2 and lay == "T":
        arr = np.ascontiguousarray(arr.T).T  # a transposed view of a C-ordered (d, n) block
    elif case["ndim"] == 2 and lay == "strided":
        big = np.repeat(arr, 2, axis=0)
        arr = big[::2]  # non-contiguous view with the same values
    d = arr2.shape[1]
    per, ref = _idx(case["periodic"], case["form"]), _idx(case["reflective"], case["form"])
    before = arr.copy()
    out = lib_call(apply_boundary_conditions, arr, per, ref, what="apply_boundary_conditions")
    out = np.asarray(out)
    if not np.array_equal(bits(arr), bits(before)):
        raise Violation("apply_boundary_conditions modified its input array", sig={"kind": "input-mutated"})
    if out.shape != arr.shape:
        raise Violation(f"output shape {out.shape} != input shape {arr.shape}", sig={"kind": "shape"})
    o2 = out.reshape(arr2.shape)
    pset, rset = set(case["periodic"]), set(case["reflective"])
    nontrivial = False
    for i in range(arr2.shape[0]):
        for j in range(d):
            v, r = float(arr2[i, j]), float(o2[i, j])
            if j in pset or j in rset:
                kind = "periodic" if j in pset else "reflective"
                if abs(v) > 1 or near_int(v):
                    nontrivial = True
                if not (0.0 <= r <= 1.0):
                    raise Violation(
                        f"{kind} coordinate {v!r} mapped to {r!r}, outside [0,1]",
                        sig={"kind": "out-of-range", "coord": kind},
                    )
                e = ref_periodic(v) if kind == "periodic" else ref_reflective(v)
                err = abs(Fraction(r) - e)
                if kind == "periodic":
                    err = min(err, 1 - err)
                if err > TOL:
                    raise Violation(
                        f"{kind} coordinate {v!r} mapped to {r!r}, exact value {float(e)!r}",
                        sig={"kind": "wrong-value", "coord": kind},
                    )
            else:
                if bits(np.array([v]))[0] != bits(np.array([r]))[0]:
                    raise Violation(
                        f"non-designated coordinate changed: {v!r} -> {r!r}", sig={"kind": "untouched-changed"}
                    )
    # idempotence (periodic end points identified)
    out2 = np.asarray(lib_call(apply_boundary_conditions, out, per, ref, what="apply_boundary_conditions(twice)"))
    t2 = out2.reshape(arr2.shape)
    for i in range(arr2.shape[0]):
        for j in range(d):
            a, b = float(o2[i, j]), float(t2[i, j])
            same = bits(np.array([a]))[0] == bits(np.array([b]))[0] or a == b
            if not same and j in pset and {a, b} == {0.0, 1.0}:
                same = True
            if not same:
                raise Violation(f"not idempotent: f(v)={a!r}, f(f(v))={b!r} (coord {j})", sig={"kind": "idempotence"})
    # bounds check on the raw input and on the folded output
    for name, A in (("input", arr), ("folded", out)):
        got = lib_call(check_bounds, A, per, ref, what="check_bounds")
        A2 = np.asarray(A).reshape(arr2.shape)
        strict = [j for j in range(d) if j not in pset and j not in rset]
        exp = np.array([all(0.0 <= float(A2[i, j]) <= 1.0 for j in strict) for i in range(A2.shape[0])])
        if case["ndim"] == 1:
            if np.ndim(got) != 0:
                raise Violation(f"check_bounds on 1-D input returned non-scalar {got!r}", sig={"kind": "cb-shape"})
            if bool(got) != bool(exp[0]):
                raise Violation(
                    f"check_bounds({name}={A.tolist()!r}, periodic={case['periodic']}, reflective={case['reflective']}) = {bool(got)}, expected {bool(exp[0])}",
                    sig={"kind": "cb-value"},
                )
        else:
            g = np.asarray(got)
            if g.shape != (A2.shape[0],):
                raise Violation(f"check_bounds on 2-D input returned shape {g.shape}", sig={"kind": "cb-shape"})
            if not np.array_equal(g.astype(bool), exp):
                raise Violation(
                    f"check_bounds({name}={A2.tolist()!r}, periodic={case['periodic']}, reflective={case['reflective']}) = {g.tolist()}, expected {exp.tolist()}",
                    sig={"kind": "cb-value"},
                )
    classes = []
    if pset:
        classes.append("has-periodic")
    if rset:
        classes.append("has-reflective")
    if any(abs(float(x)) >= 2.0**63 for row in case["vals"] for x in row):
        classes.append("|v|>=2^63")
    if case["ndim"] == 2:
        classes.append("2-D")
    if nontrivial:
        classes.append("nontrivial")
    return {"nontrivial": nontrivial, "classes": classes}


CHECKS = [
    Check(
        "fold",
        cases,
        execute,
        n={"quick": 12000, "thorough": 200000},
        shards={"quick": 16, "thorough": 16},
        doc="exact-rational reference for apply_boundary_conditions / check_bounds",
    )
]
