"""C02 - reported log-evidence is consistent and independent across seeded runs.

evidence: for generated cells (targets with quadrature-known logZ x kernel x resampler x clustering) R independently seeded runs at N
  and at 4N; with m = mean error of logZ_hat and s = per-run sd:  |m| <= t*(alpha,R-1) s/sqrt(R) + 1.5 s^2 (an unbiased Z_hat gives
  E[log Z_hat] - log Z ~ -s^2/2; factor 3 margin) must hold at N AND at 4N (an error that persists fails at 4N), and
  s(4N) <= 0.8 s(N). Because the R-replica mean has to satisfy a bound that shrinks like 1/sqrt(R), any component common to all runs
  (dependence between differently seeded runs) fails it. Two-stage: alpha 1e-6, then fresh seeds, 2R replicas, alpha 1e-4, same sign.
twins: independence decided through its mechanism (metamorphic): two samplers in bit-identical states get different seeds at a generated
  iteration index; every later batch must differ and the global stream afterwards must differ (same machinery as C09).
"""
from concurrent.futures import ProcessPoolExecutor
import multiprocessing as mp

import numpy as np

from vlib import ens
from vlib.core import Recorder, Violation, jsonable
from vlib.hypo import Check
from props.c09 import exec_twin, twin_cases

PID = "C02"
LEVEL = "exploration"
RULE = (
    "evidence: cells generated from VERIF_SEED over target families {interior Gaussian, wall-abutting, bimodal, periodic von Mises, exp-prior, zero-likelihood slab, likelihood 1000x narrower than the prior} x "
    "kernel x resampler x clustering (plus cells in volume-variation mode with tight targets), d in {1,2}; R seeded full runs per cell at N=32 and at 4N=128. evaluations = sampler runs; non-trivial = "
    "a run with >= 2 prior-phase and >= 3 annealing iterations; distinct = (cell, N, replica seed). twins: Hypothesis-generated configurations, "
    "divergence index and seed pairs; non-trivial = clustering on and >= 1 post-divergence annealing iteration."
)
ASSUMPTIONS = [
    "truth by composite Simpson quadrature per coordinate (vlib.ens.truth), cross-checked against the instrumented target",
    "statistical independence of two random variables cannot be established from samples: the twins part tests the only mechanism that could couple runs, the R-replica bound tests its visible consequence",
    "crashed replicas (finding K4) are dropped and counted",
]
CHECK = "evidence"
A_COEF = 1.5
A_CAP = 0.4  # the Jensen allowance may not exceed 0.4 nats, whatever the spread
CHUNK = 4
FAMS = ["gauss", "wall", "bimodal", "periodic", "exp-prior", "zero-region", "narrow", "mixed"]


def cells_for(tier, seed):
    rng = np.random.default_rng([seed, 202])
    n = 8 if tier == "quick" else 32
    cells = []
    fams = list(ens.FAMILIES)
    bits_rng = np.random.default_rng([seed, 203])
    bits = None
    for i in range(n):
        fi, npass = i % len(fams), i // len(fams)
        fam = fams[(fi + seed) % len(fams)]  # the quick tier runs 8 of the 9 families; which one is left out rotates with the seed
        if fi == 0:
            # even passes draw (kernel, clustering) per family; the following odd pass takes the complement
            bits = bits_rng.integers(0, 2, size=(len(fams), 2)) if npass % 2 == 0 else 1 - bits
        k, c = (int(v) for v in bits[fi])
        kernel = ["tpcn", "rwm"][k]
        if fam in ("periodic", "reflective", "mixed"):
            kernel = "rwm" if npass != 2 else "tpcn"  # tpCN x folding is finding K1: such a cell decides nothing
        cells.append(ens.make_cell(int(rng.integers(0, 2**31 - 1)), family=fam, kernel=kernel, clustering=bool(c), N=32))
    # dynamic (volume-variation) mode with a target tight enough that the schedule repeatedly stays / takes tiny steps
    for j in range(1 if tier == "quick" else 4):
        cells.append(ens.make_cell(int(rng.integers(0, 2**31 - 1)), family=["gauss", "exp-prior", "wall", "bimodal"][j % 4], kernel=["rwm", "tpcn"][j % 2],
                                   clustering=False, d=2, N=32, vv=[0.05, 0.1, 0.03, 0.3][j % 4]))
    # the likelihood may return auxiliary data of any dtype next to the log-likelihood: an integer / single-precision blob must not
    # touch the precision of the log-likelihood itself
    for j in range(1 if tier == "quick" else 3):
        cells.append(ens.make_cell(int(rng.integers(0, 2**31 - 1)), family=["gauss", "wall", "bimodal"][j], kernel=["tpcn", "rwm"][(j + seed) % 2],
                                   clustering=False, d=1 + (j + seed) % 2, N=32, mode=["blobs_int", "blobs_f4", "blobs_int"][j]))
    return cells


def R_for(tier):
    return 32 if tier == "quick" else 96


def run_chunk(cell, ci, seed, stage, start, count, N):
    out = []
    for r in range(start, start + count):
        ss = int(np.random.SeedSequence([seed, cell["seed"], stage, N, r]).generate_state(1)[0])
        rep = ens.run_replica(cell, ss, N=N, measure_crossing=(N == cell["N"]))
        if "crash" not in rep:
            betas_info = rep["beta_levels"]
            rep = {"logz": rep["logz"], "crossing": rep["crossing"], "iters": rep["iters"], "beta_levels": betas_info}
        rep.update({"cell": ci, "seed": ss, "N": N})
        out.append(jsonable(rep))
    return out


def _chunk_star(a):
    return run_chunk(*a)


class Runs:
    name = CHECK

    def n_tasks(self, tier, seed):
        return len(cells_for(tier, seed)) * 2 * (R_for(tier) // CHUNK)

    def run_task(self, pid, tier, seed, shard):
        rec = Recorder(pid, tier, seed)
        cells = cells_for(tier, seed)
        per = R_for(tier) // CHUNK
        ci, rest = shard // (2 * per), shard % (2 * per)
        N = cells[ci]["N"] * (4 if rest >= per else 1)
        rec.extra["replicas"] = run_chunk(cells[ci], ci, seed, 1, (rest % per) * CHUNK, CHUNK, N)
        return rec.export()

    def execute(self, case):
        cell = case["cell"]
        tr = ens.truth(cell)
        reps = []
        with ProcessPoolExecutor(max_workers=16, mp_context=mp.get_context("fork")) as ex:
            for r in ex.map(_chunk_star, [(cell, 0, case["seed"], 2, k * CHUNK, CHUNK, case["N"]) for k in range(case["R"] // CHUNK)]):
                reps.extend(r)
        vals = [r["logz"] - tr["logz"] for r in reps if "logz" in r]
        m, s, allowed, fl = ens.bias_test(vals, case["alpha"], A_COEF, A_CAP)
        if fl:
            raise Violation(describe(cell, case["N"], m, s, allowed, len(vals), reps), sig=signature(cell, m, reps))
        return {}


def signature(cell, m, reps):
    cross = float(np.mean([r["crossing"] for r in reps if "logz" in r] or [0.0]))
    return {"kind": "evidence-biased", "kernel": cell["kernel"], "clustering": cell["clustering"], "family": cell["family"],
            "sign": "+" if m > 0 else "-", "folded": cell["family"] in ("periodic", "reflective"),
            "labels": "position" if cell["clustering"] else "none", "crossing": ">1e-3" if cross > 1e-3 else "<=1e-3",
            "magnitude": "moderate" if abs(m) <= 0.5 else "gross"}


def describe(cell, N, m, s, allowed, R, reps):
    return (f"log-evidence is biased on a {cell['family']} target (d={cell['target']['d']}, kernel={cell['kernel']}, resample={cell['resample']}, "
            f"clustering={cell['clustering']}, N={N}): mean error {m:+.4f} over R={R} seeded runs, per-run sd {s:.4f}, allowed {allowed:.4f}")


def finish(rec, tier, seed, jobs):
    reps = rec.extra.pop("replicas", [])
    cells = cells_for(tier, seed)
    R = R_for(tier)
    table, n_crash = [], 0
    for ci, cell in enumerate(cells):
        tr = ens.truth(cell)
        sds = {}
        for N in (cell["N"], 4 * cell["N"]):
            mine = [r for r in reps if r["cell"] == ci and r["N"] == N]
            ok = [r for r in mine if "logz" in r]
            for r in mine:
                if "crash" in r:
                    n_crash += 1
                    v = Violation(f"Sampler.run crashed in an ensemble replica: {r.get('msg')}", sig={"kind": "exception", **r["crash"]})
                    f = rec.classify(CHECK, v)
                    if f is not None:
                        rec.known(f, CHECK, v)
                    else:
                        rec.violation(CHECK, v, {"cell": cell, "seed": r["seed"], "N": N, "crash": True})
                else:
                    rec.record(CHECK, {"cell": ci, "N": N, "seed": r["seed"]}, nontrivial=r["beta_levels"] >= 4,
                               classes=["family:" + cell["family"], "kernel:" + cell["kernel"], "clustering" if cell["clustering"] else "noclustering", "N=%d" % N],
                               sample={"cell": cell, "N": N, "seed": r["seed"], "logz_error": round(r["logz"] - tr["logz"], 4)})
            if len(ok) < 8:
                continue
            m, s, allowed, fl = ens.bias_test([r["logz"] - tr["logz"] for r in ok], 1e-6, A_COEF, A_CAP)
            sds[N] = s
            table.append({"cell": ci, "family": cell["family"], "kernel": cell["kernel"], "clustering": cell["clustering"], "N": N,
                          "mean_err": round(m, 5), "sd": round(s, 5), "allowed": round(allowed, 5), "R": len(ok)})
            if not fl:
                continue
            with ProcessPoolExecutor(max_workers=max(1, jobs), mp_context=mp.get_context("fork")) as ex:
                reps2 = []
                for r in ex.map(_chunk_star, [(cell, ci, seed, 2, k * CHUNK, CHUNK, N) for k in range(2 * R // CHUNK)]):
                    reps2.extend(r)
            rec.evaluations += len(reps2)
            ok2 = [r for r in reps2 if "logz" in r]
            m2, s2, allowed2, fl2 = ens.bias_test([r["logz"] - tr["logz"] for r in ok2], 1e-4, A_COEF, A_CAP)
            if not fl2 or (m2 > 0) != (m > 0):
                rec.classes[f"{CHECK}:stage1-flag-not-confirmed"] += 1
                continue
            v = Violation(describe(cell, N, m2, s2, allowed2, len(ok2), ok2), sig=signature(cell, m2, ok2))
            f = rec.classify(CHECK, v)
            if f is not None:
                rec.known(f, CHECK, v)
                rec.classes[f"{CHECK}:known:{f['id']}"] += 1
            else:
                rec.violation(CHECK, v, {"cell": cell, "N": N, "seed": seed, "R": 2 * R, "alpha": 1e-4})
        # (only in ESS mode, where the whole schedule scales with the particle count; in volume-variation mode the step length is set
        # by the metric target, larger batches take longer temperature steps and the spread of the evidence is - by design - governed
        # by that target: sd 0.118 at N=32 vs 0.113 at N=128 on the unchanged tree, vv=0.03)
        if len(sds) == 2 and cell.get("vv") is None:
            sN, s4 = sds[cell["N"]], sds[4 * cell["N"]]
            # F-test style guard: with R replicas the sd ratio itself fluctuates by ~1/sqrt(R); 0.8 is asserted with that slack
            slack = 1.0 + 3.0 / np.sqrt(2.0 * (R - 1))
            if s4 > 0.8 * sN * slack:
                # stage 2: fresh seeds, 2R replicas at both particle counts
                sd2 = {}
                for N in (cell["N"], 4 * cell["N"]):
                    with ProcessPoolExecutor(max_workers=max(1, jobs), mp_context=mp.get_context("fork")) as ex:
                        r2 = []
                        for r in ex.map(_chunk_star, [(cell, ci, seed, 3, k * CHUNK, CHUNK, N) for k in range(2 * R // CHUNK)]):
                            r2.extend(r)
                    rec.evaluations += len(r2)
                    sd2[N] = float(np.std([r["logz"] - tr["logz"] for r in r2 if "logz" in r], ddof=1))
                slack2 = 1.0 + 3.0 / np.sqrt(2.0 * (2 * R - 1))
                if sd2[4 * cell["N"]] > 0.8 * sd2[cell["N"]] * slack2:
                    v = Violation(f"the spread of the log-evidence does not shrink with the particle count on a {cell['family']} target "
                                  f"(kernel={cell['kernel']}, clustering={cell['clustering']}): sd {sd2[cell['N']]:.4f} at N={cell['N']}, "
                                  f"{sd2[4 * cell['N']]:.4f} at N={4 * cell['N']} (2R={2 * R} fresh runs each; first pass {sN:.4f} / {s4:.4f})",
                                  sig={"kind": "evidence-sd-not-shrinking", "kernel": cell["kernel"], "clustering": cell["clustering"], "family": cell["family"]})
                    f = rec.classify(CHECK, v)
                    if f is not None:
                        rec.known(f, CHECK, v)
                    else:
                        rec.violation(CHECK, v, {"cell": cell, "N": cell["N"], "seed": seed, "R": R, "alpha": 1e-6, "sd_check": True})
                else:
                    rec.classes[f"{CHECK}:stage1-flag-not-confirmed"] += 1
    rec.extra["ensemble_table"] = table
    rec.extra["crashed_replicas"] = n_crash


CHECKS = [
    Runs(),
    Check("twins", twin_cases, exec_twin, n={"quick": 48, "thorough": 600}, shards={"quick": 16, "thorough": 16},
          shrink={"quick": False, "thorough": True}),
]
