"""Building, running and observing real Sampler objects."""
import contextlib
import io
import os
import shutil
import tempfile

import numpy as np

from .core import HarnessError
from .targets import PermutingPool, ScriptedExecutor, Target

CFG_DEFAULTS = dict(
    sample="tpcn", resample="mult", clustering=False, normalize=True, cluster_every=1, n_max_clusters=None,
    split_threshold=1.0, ess_ratio=2.0, volume_variation=None, n_steps=None, n_max_steps=None,
    periodic=None, reflective=None, pool=None, n_particles=32, n_total=128, random_state=None,
)


def make_sampler(target, cfg, output_dir=None, output_label=None):
    from tempest import Sampler

    c = dict(CFG_DEFAULTS)
    c.update(cfg)
    kw = target.sampler_kwargs()
    pool = c["pool"]
    if pool == "permuting":
        pool = PermutingPool(c.get("pool_seed", 0))
    elif pool == "executor":
        pool = ScriptedExecutor(c.get("pool_seed", 0))
    elif pool == "threads":
        from concurrent.futures import ThreadPoolExecutor

        pool = ThreadPoolExecutor(4)
    for k in ("sample", "resample", "clustering", "normalize", "cluster_every", "n_max_clusters", "split_threshold",
              "ess_ratio", "volume_variation", "n_steps", "n_max_steps", "periodic", "reflective", "n_particles", "random_state"):
        kw[k] = c[k]
    kw["pool"] = pool
    if output_dir is not None:
        kw["output_dir"] = output_dir
    if output_label is not None:
        kw["output_label"] = output_label
    return Sampler(**kw)


@contextlib.contextmanager
def quiet():
    """tempest prints from save_state etc.; keep check output clean."""
    with contextlib.redirect_stdout(io.StringIO()):
        yield


@contextlib.contextmanager
def scratch_dir():
    d = tempfile.mkdtemp(prefix="vrf_")
    try:
        yield d
    finally:
        shutil.rmtree(d, ignore_errors=True)


def core_of(sampler):
    c = getattr(sampler, "_core", None)
    if c is None:
        raise HarnessError("Sampler has no _core attribute: observation point missing")
    for name in ("reweighter", "trainer", "resampler", "mutator", "state"):
        if not hasattr(c, name):
            raise HarnessError(f"SamplerCore has no attribute {name}: observation point missing")
    return c


def wrap_method(obj, name, before=None, after=None):
    """Wrap obj.<name> on the instance. after(result, *args) is called with the return value."""
    if not hasattr(obj, name):
        raise HarnessError(f"{type(obj).__name__} has no method {name}: observation point missing")
    orig = getattr(obj, name)

    def wrapper(*a, **k):
        if before is not None:
            before(*a, **k)
        r = orig(*a, **k)
        if after is not None:
            after(r, *a, **k)
        return r

    setattr(obj, name, wrapper)
    return orig


@contextlib.contextmanager
def patched_parallel_mcmc(observer):
    """Replace tempest.steps.mutate.parallel_mcmc by a wrapper that calls observer(kwargs, result)."""
    import tempest.steps.mutate as mut

    if not hasattr(mut, "parallel_mcmc"):
        raise HarnessError("tempest.steps.mutate.parallel_mcmc missing: observation point missing")
    orig = mut.parallel_mcmc

    def wrapper(*a, **k):
        if a:
            raise HarnessError("parallel_mcmc called positionally; the harness expects keyword arguments")
        res = orig(**k)
        observer(k, res)
        return res

    mut.parallel_mcmc = wrapper
    try:
        yield
    finally:
        mut.parallel_mcmc = orig


def history_snapshot(state):
    """Deep copy of the state manager's current + history (bit-exact comparison material)."""
    import copy

    return {"current": copy.deepcopy(dict(state._current)), "history": copy.deepcopy({k: list(v) for k, v in state._history.items()})}


def arrays_equal(a, b):
    if a is None or b is None:
        return a is None and b is None
    a, b = np.asarray(a), np.asarray(b)
    if a.shape != b.shape:
        return False
    if a.dtype.kind == "f" or b.dtype.kind == "f":
        return bool(np.array_equal(a, b, equal_nan=True))
    return bool(np.array_equal(a, b))


def snapshots_equal(s1, s2, keys=None):
    """Returns None if equal else a description of the first difference."""
    for part in ("current", "history"):
        ks = sorted(set(s1[part]) | set(s2[part]))
        for k in ks:
            if keys is not None and k not in keys:
                continue
            v1, v2 = s1[part].get(k), s2[part].get(k)
            if part == "history":
                if len(v1 or []) != len(v2 or []):
                    return f"history[{k}] length {len(v1 or [])} vs {len(v2 or [])}"
                for i, (x, y) in enumerate(zip(v1, v2)):
                    if not arrays_equal(x, y):
                        return f"history[{k}][{i}] differs"
            else:
                if not arrays_equal(v1, v2):
                    return f"current[{k}] differs"
    return None
