"""Instrumented targets: deterministic per-row prior transform, log-likelihood written as explicit
per-coordinate arithmetic (scalar and vectorised evaluation give bit-identical floats), blob a
deterministic function of x, and a counter of the points the likelihood was evaluated at.
"""
import math

import numpy as np
from scipy.special import ndtri


BLOB_MODES = {"blobs": 1, "blobs2": 2, "blobs_auto": 1, "blobs_str": 1, "blobs_rec": 2, "blobs_arr": 1, "blobs_f4": 1, "blobs_int": 1}


class Target:
    """Product Gaussian likelihood in x, optional zero-likelihood half-space/box, optional constant shift.

    pt kinds per coordinate: 'affine' x = a + b*u ; 'exp' x = exp(a + b*u) ; 'ppf' x = a + b*ndtri(clip(u)).
    mode: 'vector' (vectorize=True), 'scalar', 'blobs' (scalar, returns (logl, blob)), 'blobs2' (two blobs), 'blobs_auto' (one float
    blob, blobs_dtype left to the sampler), 'blobs_str' (one string blob of varying length, blobs_dtype left to the sampler).
    """

    def __init__(self, d, kinds, a, b, centre, width, mode="vector", zero_below=None, zero_coord=0, shift=0.0,
                 mix=None, lkind=None):
        self.d = int(d)
        self.kinds = list(kinds)
        self.a = [float(v) for v in a]
        self.b = [float(v) for v in b]
        self.centre = [float(v) for v in centre]
        self.width = [float(v) for v in width]
        self.mode = mode
        self.zero_below = None if zero_below is None else float(zero_below)
        self.zero_coord = int(zero_coord)
        self.shift = float(shift)
        self.mix = mix  # optional second mode: dict(centre=[..], logamp=float)
        self.lkind = list(lkind) if lkind else ["gauss"] * self.d  # 'gauss' | 'vm' (von Mises in x, kappa = width) | 'flat' (no dependence on this coordinate)
        self.n_points = 0
        self.n_calls = 0
        self.n_finite = 0

    # ---- prior transform (always called on one row)
    def pt(self, u):
        u = np.asarray(u, dtype=float)
        x = np.empty(self.d)
        for j in range(self.d):
            k = self.kinds[j]
            if k == "affine":
                x[j] = self.a[j] + self.b[j] * float(u[j])
            elif k == "exp":
                x[j] = math.exp(self.a[j] + self.b[j] * float(u[j]))
            else:
                uj = min(max(float(u[j]), 1e-12), 1 - 1e-12)
                x[j] = self.a[j] + self.b[j] * float(ndtri(uj))
        return x

    # ---- pure (uncounted) reference evaluation of one row
    def _term(self, xj, cj, j):
        if self.lkind[j] == "flat":
            return 0.0  # plateau: every supported point has exactly the same likelihood
        if self.lkind[j] == "vm":
            return self.width[j] * (math.cos(2.0 * math.pi * (xj - cj)) - 1.0)
        t = (xj - cj) / self.width[j]
        return -0.5 * t * t

    def ll_row(self, x):
        acc = 0.0
        for j in range(self.d):
            acc = acc + self._term(float(x[j]), self.centre[j], j)
        if self.mix is not None:
            acc2 = 0.0
            for j in range(self.d):
                acc2 = acc2 + self._term(float(x[j]), self.mix["centre"][j], j)
            acc2 = acc2 + self.mix["logamp"]
            m = acc if acc >= acc2 else acc2
            acc = m + math.log(math.exp(acc - m) + math.exp(acc2 - m))
        acc = acc + self.shift
        if self.zero_below is not None and float(x[self.zero_coord]) < self.zero_below:
            return -math.inf
        return acc

    def blob_row(self, x):
        acc = 3.0 * float(x[0])
        for j in range(1, self.d):
            acc = acc + float(x[j])
        return acc

    def blob_vec(self, x):
        """all blob components of the current mode (one for 'blobs' / 'blobs_auto' / 'blobs_str', two for 'blobs2')"""
        if self.mode in ("blobs2", "blobs_rec", "blobs_arr"):
            return [self.blob_row(x), 2.0 * float(x[self.d - 1]) - 1.0]
        if self.mode == "blobs_str":
            return [repr(float(x[0]))]  # strings of different lengths (3..24 characters): truncation would show
        if self.mode == "blobs_f4":
            return [float(np.float32(self.blob_row(x)))]  # what a float32 blobs array holds
        if self.mode == "blobs_int":
            return [int(math.floor(1000.0 * float(x[0])))]
        return [self.blob_row(x)]

    def blob_match(self, x, stored):
        """is `stored` (one row of a blobs array, any dtype) exactly what the likelihood returns as blob(s) at x?"""
        exp = self.blob_vec(x)
        st = np.asarray(stored)
        if st.dtype.names:  # structured blobs_dtype: one record per particle
            got = [v for n in st.dtype.names for v in np.asarray(st[n], dtype=object).ravel().tolist()]
        else:
            got = np.asarray(stored, dtype=object).ravel().tolist()
        return len(got) == len(exp) and all(bool(g == e) for g, e in zip(got, exp))

    def loglike_blobs_arr(self, x):
        self.n_calls += 1
        self.n_points += 1
        v = self.ll_row(x)
        self.n_finite += int(math.isfinite(v))
        return v, np.array(self.blob_vec(x))  # ONE array-valued blob

    def loglike_blobs_int(self, x):
        self.n_calls += 1
        self.n_points += 1
        v = self.ll_row(x)
        self.n_finite += int(math.isfinite(v))
        return v, int(math.floor(1000.0 * float(x[0])))

    def loglike_blobs_str(self, x):
        self.n_calls += 1
        self.n_points += 1
        v = self.ll_row(x)
        self.n_finite += int(math.isfinite(v))
        return v, repr(float(x[0]))

    def loglike_blobs2(self, x):
        self.n_calls += 1
        self.n_points += 1
        v = self.ll_row(x)
        self.n_finite += int(math.isfinite(v))
        b = self.blob_vec(x)
        return v, b[0], b[1]

    # ---- what the sampler calls
    def loglike_vector(self, x):
        x = np.asarray(x, dtype=float)
        self.n_calls += 1
        self.n_points += x.shape[0]
        out = np.array([self.ll_row(x[i]) for i in range(x.shape[0])])
        self.n_finite += int(np.sum(np.isfinite(out)))
        if getattr(self, "reuse_out", False):
            # NumPy 'out=' style: the same buffer is filled and returned on every call of the same batch size
            buf = self.__dict__.setdefault("_bufs", {}).setdefault(len(out), np.empty(len(out)))
            buf[:] = out
            return buf
        return out

    def loglike_scalar(self, x):
        self.n_calls += 1
        self.n_points += 1
        v = self.ll_row(x)
        self.n_finite += int(math.isfinite(v))
        return v

    def loglike_blobs(self, x):
        self.n_calls += 1
        self.n_points += 1
        v = self.ll_row(x)
        self.n_finite += int(math.isfinite(v))
        return v, self.blob_row(x)

    @property
    def loglike(self):
        return {"vector": self.loglike_vector, "scalar": self.loglike_scalar, "blobs": self.loglike_blobs,
                "blobs2": self.loglike_blobs2, "blobs_auto": self.loglike_blobs, "blobs_str": self.loglike_blobs_str,
                "blobs_rec": self.loglike_blobs2, "blobs_arr": self.loglike_blobs_arr, "blobs_f4": self.loglike_blobs,
                "blobs_int": self.loglike_blobs_int}[self.mode]

    def sampler_kwargs(self):
        kw = {"prior_transform": self.pt, "log_likelihood": self.loglike, "n_dim": self.d}
        if self.mode == "vector":
            kw["vectorize"] = True
        if self.mode in ("blobs", "blobs2"):
            kw["blobs_dtype"] = "float"
        if self.mode == "blobs_f4":
            kw["blobs_dtype"] = "float32"  # a reduced-precision blob must not touch the precision of the log-likelihood
        if self.mode == "blobs_int":
            kw["blobs_dtype"] = int
        if self.mode == "blobs_rec":
            kw["blobs_dtype"] = [("a", float), ("b", float)]  # structured dtype with named fields (docs/examples/blobs.md)
        if self.mode == "blobs_arr":
            kw["blobs_dtype"] = (float, 2)  # one array-valued blob per particle (docs/examples/blobs.md, case 3)
        # 'blobs_auto' (float blob) and 'blobs_str' (string blob) leave blobs_dtype to the sampler's own detection
        return kw

    def spec(self):
        return {"d": self.d, "kinds": self.kinds, "a": self.a, "b": self.b, "centre": self.centre, "width": self.width,
                "mode": self.mode, "zero_below": self.zero_below, "zero_coord": self.zero_coord, "shift": self.shift,
                "mix": self.mix, "lkind": self.lkind}

    @classmethod
    def from_spec(cls, s):
        return cls(s["d"], s["kinds"], s["a"], s["b"], s["centre"], s["width"], s.get("mode", "vector"),
                   s.get("zero_below"), s.get("zero_coord", 0), s.get("shift", 0.0), s.get("mix"), s.get("lkind"))


class PermutingPool:
    """Pool-like object: evaluates its items in a scripted permutation, returns results in input order."""

    def __init__(self, seed=0):
        self.seed = int(seed)
        self.calls = 0

    def __reduce__(self):  # like multiprocessing.Pool: a live pool cannot be pickled
        raise NotImplementedError("pool objects cannot be passed between processes or pickled")

    def map(self, f, xs):
        xs = list(xs)
        self.calls += 1
        order = np.random.default_rng(self.seed + self.calls).permutation(len(xs))
        out = [None] * len(xs)
        for i in order:
            out[i] = f(xs[i])
        return out


class ScriptedExecutor:
    """Executor-style pool-like object (submit + map, like concurrent.futures executors): work is done at submit time in the
    calling thread, but the futures *complete* in a scripted permutation, so anything that gathers them in completion order
    (as_completed, callbacks) sees them out of submission order. map() returns results in input order, as Executor.map must."""

    def __init__(self, seed=0):
        self.seed = int(seed)
        self.calls = 0

    def __reduce__(self):
        raise NotImplementedError("pool objects cannot be passed between processes or pickled")

    def submit(self, f, *a, **k):
        from concurrent.futures import Future

        fut = Future()
        fut.set_running_or_notify_cancel()
        try:
            fut.set_result(f(*a, **k))
        except BaseException as e:  # noqa
            fut.set_exception(e)
        return fut

    def map(self, f, *iterables, timeout=None, chunksize=1):
        return [f(*args) for args in zip(*iterables)]

    def shutdown(self, wait=True, **k):
        pass


def simple_target_spec(rng, d, mode="vector", zero=False, interior=True):
    """A Gaussian-likelihood target with the posterior well inside the cube (in u)."""
    kinds, a, b, centre, width = [], [], [], [], []
    for j in range(d):
        k = ["affine", "affine", "exp", "ppf"][int(rng.integers(0, 4))]
        kinds.append(k)
        if k == "affine":
            aj, bj = float(rng.uniform(-3, 0)), float(rng.uniform(2, 6))
            uc = float(rng.uniform(0.3, 0.7))
            centre.append(aj + bj * uc)
            width.append(bj * float(10 ** rng.uniform(-1.6, -0.9)))
        elif k == "exp":
            aj, bj = float(rng.uniform(-1, 0)), float(rng.uniform(1, 2))
            uc = float(rng.uniform(0.3, 0.7))
            centre.append(math.exp(aj + bj * uc))
            width.append(math.exp(aj + bj * uc) * bj * float(10 ** rng.uniform(-1.6, -0.9)))
        else:
            aj, bj = float(rng.uniform(-1, 1)), float(rng.uniform(0.5, 2))
            centre.append(aj + bj * float(rng.uniform(-0.5, 0.5)))
            width.append(bj * float(10 ** rng.uniform(-0.7, -0.3)))
        a.append(aj)
        b.append(bj)
    spec = {"d": d, "kinds": kinds, "a": a, "b": b, "centre": centre, "width": width, "mode": mode,
            "zero_below": None, "zero_coord": 0, "shift": 0.0, "mix": None}
    if zero:
        # zero likelihood on a slab of prior mass in coordinate 0 that does not contain the mode
        t = Target.from_spec(spec)
        j = 0
        uz = float(rng.uniform(0.1, 0.3))
        xz = t.pt(np.full(d, uz))[j]
        spec["zero_below"] = float(xz)
        spec["zero_coord"] = j
    return spec
