"""t-wise covering arrays over option lattices (seeded greedy construction, coverage verified),
and a check skeleton that executes one sampler-level case per row and shrinks failures factor by factor."""
import itertools
import json

import numpy as np

from .core import Recorder, Violation, jsonable
from .hypo import guarded


def all_tuples(factors, t):
    names = list(factors)
    out = set()
    for combo in itertools.combinations(range(len(names)), t):
        for vals in itertools.product(*[range(len(factors[names[i]])) for i in combo]):
            out.add((combo, vals))
    return out


def covering_array(factors, t, seed, constraint=None, candidates=40):
    """Greedy: repeatedly pick, among random candidate rows, the one covering most uncovered t-tuples.
    Returns list of dict rows. constraint(row)->bool filters invalid combinations (their tuples are
    dropped from the obligation if no valid row can cover them)."""
    rng = np.random.default_rng(seed)
    names = list(factors)
    sizes = [len(factors[n]) for n in names]
    unc = all_tuples(factors, t)
    rows = []

    def to_row(ix):
        return {n: factors[n][i] for n, i in zip(names, ix)}

    def cover(ix):
        return {(c, tuple(ix[i] for i in c)) for c in itertools.combinations(range(len(names)), t)}

    stall = 0
    while unc and stall < 200:
        best, best_gain = None, -1
        # seed each candidate with one uncovered tuple so progress is guaranteed when it is feasible
        unc_list = sorted(unc)
        for _ in range(candidates):
            ix = [int(rng.integers(0, s)) for s in sizes]
            c, vals = unc_list[int(rng.integers(0, len(unc_list)))]
            for i, v in zip(c, vals):
                ix[i] = v
            if constraint is not None and not constraint(to_row(ix)):
                continue
            gain = len(cover(ix) & unc)
            if gain > best_gain:
                best, best_gain = ix, gain
        if best is None or best_gain <= 0:
            stall += 1
            continue
        stall = 0
        rows.append(to_row(best))
        unc -= cover(best)
    return rows, len(unc)


def coverage_fraction(factors, rows, t):
    names = list(factors)
    want = all_tuples(factors, t)
    got = set()
    for r in rows:
        ix = [factors[n].index(r[n]) for n in names]
        for c in itertools.combinations(range(len(names)), t):
            got.add((c, tuple(ix[i] for i in c)))
    return len(want & got), len(want)


def shrink_row(row, defaults, fails, budget=12):
    """Greedy factor-wise minimisation: reset factors to their default while the case keeps failing."""
    row = dict(row)
    used = 0
    for k, dv in defaults.items():
        if used >= budget:
            break
        if k in row and row[k] != dv:
            trial = dict(row)
            trial[k] = dv
            used += 1
            try:
                if fails(trial):
                    row = trial
            except Exception:  # noqa
                pass
    return row


class RowCheck:
    """One case per (row of a covering array, case seed). Subclasses define FACTORS, DEFAULTS, T,
    extra_rows(tier), execute(case) (case = {'row':..., 'seed':...}) and classes(case, info)."""

    name = "rows"
    FACTORS = {}
    DEFAULTS = {}
    T = {"quick": 2, "thorough": 3}
    REPEATS = {"quick": 1, "thorough": 1}
    SHRINK_BUDGET = {"quick": 6, "thorough": 14}

    def constraint(self, row):
        return True

    def rows(self, tier, seed):
        cache = self.__dict__.setdefault("_rows_cache", {})
        if (tier, seed) in cache:
            return cache[(tier, seed)]
        cache[(tier, seed)] = self._rows(tier, seed)
        return cache[(tier, seed)]

    def _rows(self, tier, seed):
        rows, left = covering_array(self.FACTORS, self.T[tier], seed, self.constraint)
        out = []
        for rep in range(self.REPEATS[tier]):
            for i, r in enumerate(rows):
                out.append({"row": r, "seed": int((seed * 1000003 + rep * 7919 + i * 104729) % (2**31 - 1))})
        return out

    def n_tasks(self, tier, seed):
        return len(self.rows(tier, seed))

    def run_task(self, pid, tier, seed, shard):
        rec = Recorder(pid, tier, seed)
        case = self.rows(tier, seed)[shard]
        self._run_case(rec, tier, case)
        if shard == 0:
            rows = [c["row"] for c in self.rows(tier, seed)]
            got, want = coverage_fraction(self.FACTORS, rows, self.T[tier])
            rec.extra[f"{self.name}_covering_array"] = {"t": self.T[tier], "rows": len(rows), "tuples_covered": got,
                                                        "tuples_total": want}
        return rec.export()

    def _run_case(self, rec, tier, case):
        try:
            info = guarded(self.execute, case)
        except Violation as v:
            f = rec.classify(self.name, v)
            if f is not None:
                rec.known(f, self.name, v)
                rec.record(self.name, case, False, ["known:" + f["id"]])
                return
            kind = v.sig.get("kind")

            def fails(row):
                try:
                    guarded(self.execute, {"row": row, "seed": case["seed"]})
                except Violation as v2:
                    return v2.sig.get("kind") == kind and rec.classify(self.name, v2) is None
                return False

            small = shrink_row(case["row"], self.DEFAULTS, fails, self.SHRINK_BUDGET[tier])
            c2 = {"row": small, "seed": case["seed"]}
            try:
                guarded(self.execute, c2)
                c2, v2 = case, v
            except Violation as vv:
                v2 = vv
            rec.violation(self.name, v2, c2)
            rec.record(self.name, case, False, ["violation"])
            return
        rec.record(self.name, case, nontrivial=bool(info.get("nontrivial")), classes=info.get("classes", ()),
                   sample=info.get("sample"))
