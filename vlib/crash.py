"""Process-death injection for a save routine: the routine runs in a forked child in which every IO
primitive it can use for the write (open/io.open for writing, file.write/flush, os.fsync, os.replace/rename)
is wrapped and logged; the child really dies (os._exit) at a chosen event / byte offset.

What survives a process death: everything the process has handed to the operating system. What is still in the
file object's user-space buffer is LOST (os._exit runs no finalisers), unless the buffer happened to be flushed
just before - both outcomes are real, so every crash point is executed in two variants: 'before'/'after' (die at
once, buffers lost) and 'before+flush'/'after+flush' (the buffers were written out first). A crash at byte offset k
inside a write hands the first k bytes to the OS and dies. Power loss (fsync durability) is not modelled.
"""
import builtins
import io
import os
import pickle


class _CrashFile:
    def __init__(self, real, ctl, name):
        self._real, self._ctl, self._name = real, ctl, name

    def write(self, b):
        n = len(b)
        self._ctl.event("write", n, self, b)
        r = self._real.write(b)
        self._ctl.after()
        return r

    def flush(self):
        self._ctl.event("flush", 0)
        r = self._real.flush()
        self._ctl.after()
        return r

    def close(self):
        return self._real.close()

    def fileno(self):
        return self._real.fileno()

    def __enter__(self):
        return self

    def __exit__(self, *a):
        self._real.close()
        return False

    def __getattr__(self, k):
        return getattr(self._real, k)


class _Ctl:
    """Event counter; crash = (event index, 'before'|'after'|byte offset int)."""

    def __init__(self, crash, logfd):
        self.i = -1
        self.crash = crash
        self.logfd = logfd
        self.open_files = []

    def _die(self, flush):
        if flush:
            for f in self.open_files:
                try:
                    f._real.flush()
                except Exception:  # noqa
                    pass
        os._exit(77)

    def event(self, kind, n, f=None, data=None):
        self.i += 1
        os.write(self.logfd, f"{self.i} {kind} {n}\n".encode())
        if self.crash is not None and self.crash[0] == self.i:
            how = self.crash[1]
            if how in ("before", "before+flush"):
                self._die(how.endswith("+flush"))
            if isinstance(how, int) and kind == "write":
                f._real.write(data[: max(0, min(how, n))])
                self._die(True)

    def after(self):
        if self.crash is not None and self.crash[0] == self.i and self.crash[1] in ("after", "after+flush"):
            self._die(self.crash[1].endswith("+flush"))


def run_in_child(fn, crash=None):
    """Fork; in the child wrap IO, call fn(); returns (exit_code, events) where events = [(idx, kind, nbytes)].
    exit 0 = fn completed, 77 = injected crash, 3 = fn raised."""
    r, w = os.pipe()
    pid = os.fork()
    if pid == 0:
        try:
            os.close(r)
            ctl = _Ctl(crash, w)
            real_open = builtins.open

            def my_open(file, mode="r", *a, **k):
                writing = any(c in mode for c in "wax+")
                if writing:
                    ctl.event("open", 0)
                f = real_open(file, mode, *a, **k)
                if writing:
                    cf = _CrashFile(f, ctl, str(file))
                    ctl.open_files.append(cf)
                    ctl.after()
                    return cf
                return f

            builtins.open = my_open
            io.open = my_open
            for name in ("fsync", "replace", "rename"):
                real = getattr(os, name)

                def wrapped(*a, _real=real, _name=name, **k):
                    ctl.event(_name, 0)
                    out = _real(*a, **k)
                    ctl.after()
                    return out

                setattr(os, name, wrapped)
            try:
                fn()
            except BaseException as e:  # noqa
                os.write(w, f"-1 EXC:{type(e).__name__}:{str(e)[:120].replace(' ', '_')} 0\n".encode())
                os._exit(3)
            os._exit(0)
        finally:
            os._exit(4)
    os.close(w)
    chunks = []
    while True:
        b = os.read(r, 65536)
        if not b:
            break
        chunks.append(b)
    os.close(r)
    _, status = os.waitpid(pid, 0)
    code = os.WEXITSTATUS(status) if os.WIFEXITED(status) else -1
    events = []
    for line in b"".join(chunks).decode().splitlines():
        i, kind, n = line.split()
        events.append((int(i), kind, int(n)))
    return code, events
