"""./check <id> [--tier quick|thorough] [--replay file] [--only check-name]"""
import argparse
import glob
import importlib
import json
import os
import sys
import time
import traceback
from concurrent.futures import ProcessPoolExecutor
import multiprocessing as mp

from . import core
from .core import HarnessError, Recorder, Violation


def _task(args):
    cov_dir = os.environ.get("VERIF_COV_DIR")
    if cov_dir:
        from . import cov

        cov.start(core.TEMPEST_SRC)
        try:
            return _task_inner(args)
        finally:
            cov.dump(cov_dir)
    return _task_inner(args)


def _task_inner(args):
    kind, pid, tier, seed, cname, shard, n = args
    mod = importlib.import_module(f"props.{pid.lower()}")
    check = {c.name: c for c in mod.CHECKS}[cname]
    if kind == "hypo":
        from .hypo import run_shard

        return run_shard(pid, tier, seed, check, shard, n)
    return check.run_task(pid, tier, seed, shard)


def _find_check(mod, name):
    for c in mod.CHECKS:
        if c.name == name:
            return c
    raise HarnessError(f"no check {name} in {mod.__name__}")


def _replay_file(mod, pid, path, rec):
    from .hypo import replay_case

    with open(path) as f:
        body = json.load(f)
    check = _find_check(mod, body["check"])
    v = replay_case(check, body["case"])
    if v is None:
        return None
    fnd = rec.classify(check.name, v)
    if fnd is not None:
        rec.known(fnd, check.name, v)
        return None
    return v


def main(argv=None):
    ap = argparse.ArgumentParser()
    ap.add_argument("pid")
    ap.add_argument("--tier", default=os.environ.get("VERIF_TIER", "quick"), choices=["quick", "thorough"])
    ap.add_argument("--replay", default=None)
    ap.add_argument("--only", default=None, help="comma-separated check names (debugging; evidence still written)")
    ap.add_argument("--jobs", type=int, default=int(os.environ.get("VERIF_JOBS", "16")))
    a = ap.parse_args(argv)
    pid = a.pid.upper()
    try:
        seed = int(os.environ.get("VERIF_SEED", "1"))
    except ValueError:
        seed = 1
    t0 = time.time()
    try:
        core.import_tempest()
        mod = importlib.import_module(f"props.{pid.lower()}")
        rec = Recorder(pid, a.tier, seed)

        if a.replay:
            v = _replay_file(mod, pid, a.replay, rec)
            for fid, msg in rec.known_msgs.items():
                print(f"KNOWN-FINDING: property={pid} {fid} {msg}")
            if v is not None:
                print(f"VIOLATION property={pid} replay={a.replay}")
                print("  " + v.msg)
                return 1
            print(f"replay passes: property={pid} {a.replay}")
            return 0

        viol_out = []
        # 1. the seconds-long replay tier: committed regression inputs
        for path in sorted(glob.glob(os.path.join(core.VERIF_ROOT, "replays", pid, "regress-*.json"))):
            v = _replay_file(mod, pid, path, rec)
            rec.classes["regress:cases"] += 1
            rec.evaluations += 1
            if v is not None:
                viol_out.append((os.path.relpath(path, core.VERIF_ROOT), v.msg))
                rec.violations.append({"check": "regress", "sig": core.jsonable(v.sig), "msg": v.msg,
                                       "case": path, "detail": None})

        # 2. generated search
        tasks = []
        for c in mod.CHECKS:
            if a.only and c.name not in a.only.split(","):
                continue
            if hasattr(c, "run_task"):
                for sh in range(c.n_tasks(a.tier, seed)):
                    tasks.append(("custom", pid, a.tier, seed, c.name, sh, 0))
            else:
                ns = max(1, min(c.shards.get(a.tier, 8), c.n[a.tier]))
                per = -(-c.n[a.tier] // ns)
                for sh in range(ns):
                    tasks.append(("hypo", pid, a.tier, seed, c.name, sh, per))
        if tasks:
            jobs = max(1, min(a.jobs, len(tasks)))
            if jobs == 1:
                results = [_task(t) for t in tasks]
            else:
                with ProcessPoolExecutor(max_workers=jobs, mp_context=mp.get_context("fork")) as ex:
                    results = list(ex.map(_task, tasks, chunksize=1))
            for r in results:  # task order, not completion order
                rec.merge(r)

        if hasattr(mod, "finish"):
            mod.finish(rec, a.tier, seed, a.jobs)

        # 3. replay files for new violations (one per check: the first in task order)
        seen = set()
        for v in rec.violations:
            if v["check"] == "regress" or v["check"] in seen:
                continue
            seen.add(v["check"])
            p = core.write_replay(pid, v["check"], v["case"], v["msg"], v["sig"], v.get("detail"))
            viol_out.append((os.path.relpath(p, core.VERIF_ROOT), v["msg"]))

        wall = time.time() - t0
        core.write_evidence(
            rec,
            getattr(mod, "LEVEL", "exploration"),
            getattr(mod, "RULE", ""),
            wall,
            getattr(mod, "ASSUMPTIONS", []),
        )
        for fid, msg in sorted(rec.known_msgs.items()):
            print(f"KNOWN-FINDING: property={pid} {fid} {msg} (hits={rec.known_hits[fid]})")
        print(
            f"[{pid} {a.tier} seed={seed}] evaluations={rec.evaluations} "
            f"distinct_nontrivial={len(rec.nontrivial)} violations={len(viol_out)} wall={wall:.1f}s"
        )
        if viol_out:
            for p, msg in viol_out:
                print(f"VIOLATION property={pid} replay={p}")
                print("  " + msg[:600])
            return 1
        return 0
    except HarnessError as e:
        print(f"HARNESS-ERROR property={pid}: {e}", file=sys.stderr)
        return 2
    except Exception:
        print(f"HARNESS-ERROR property={pid}:\n{traceback.format_exc()}", file=sys.stderr)
        return 2


if __name__ == "__main__":
    sys.exit(main())
