"""Optional line coverage of the tempest package while checks run (VERIF_COV_DIR set): a measurement of what the generators reach,
it decides nothing. Uses sys.monitoring (3.12): every line location reports once and is then disabled, so the overhead is negligible."""
import json
import os
import sys

_seen = set()
_root = None
TOOL = 3


def start(src_root):
    global _root
    if _root is not None or not hasattr(sys, "monitoring"):
        return
    _root = os.path.join(os.path.abspath(src_root), "tempest") + os.sep
    mon = sys.monitoring
    try:
        mon.use_tool_id(TOOL, "verif-cov")
    except ValueError:
        pass  # inherited from the parent process (fork)

    def on_line(code, line):
        fn = code.co_filename
        if fn.startswith(_root):
            _seen.add((fn[len(_root):], line))
        return mon.DISABLE

    mon.register_callback(TOOL, mon.events.LINE, on_line)
    mon.set_events(TOOL, mon.events.LINE)


def dump(out_dir):
    if _root is None:
        return
    os.makedirs(out_dir, exist_ok=True)
    with open(os.path.join(out_dir, f"{os.getpid()}.json"), "w") as f:
        json.dump(sorted(_seen), f)
