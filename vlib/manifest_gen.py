"""Regenerates /verif/MANIFEST.json from the table below (python3 -m vlib.manifest_gen)."""
import json
import os

ROOT = os.path.dirname(os.path.dirname(os.path.abspath(__file__)))

# id -> (category, technique, level text, level note, design ref)
CLAIMED = {
    "C16": (
        "exploration",
        "property-based testing (Hypothesis) against an exact rational reference + idempotence/bit-identity invariants",
        "Generated search over all finite doubles (enriched near integers, 2^53, 2^63, 1e300, subnormals), index subsets and "
        "array shapes; every folded value is compared with the exact Fraction value of v mod 1 / the period-2 triangle wave. "
        "Right level: the maps are pure functions of a few doubles, so an exact oracle over a generated domain decides each case; "
        "absence of a counterexample is not a proof.",
        "Trusts Python's Fraction arithmetic and Hypothesis' float generator; index sets assumed disjoint and in range (C18 covers rejection).",
        "DESIGN.md §2 C16",
    ),
}
CLAIMED["C06"] = (
    "exploration",
    "property-based testing (Hypothesis) with scripted numpy.random: exhaustive enumeration of the offset partition per generated (n,w) against an exact-rational model; index-tagged histories for Resampler.run; two-stage z-test for multinomial counts",
    "For every generated (n, w) (sum within the sqrt(eps) band the routine accepts) the uniform offset is covered completely: every "
    "breakpoint of the comb (exact rational), one ulp either side, every interval midpoint, 0 and nextafter(1,0); validity, floor/ceil "
    "copy counts, no zero-weight selection, and the integral of the counts over u0 (= n*w_i, exact unbiasedness) are checked. Resampler.run "
    "is driven on synthetic histories whose rows encode their own index. Exhaustive in u0, sampled in (n,w).",
    "numpy.random is monkey-patched (module-level uniform functions); tolerance tau = n*|sum(w)-1| + 1e-9 copies; multinomial unbiasedness is statistical (alpha 1e-6 then 1e-4 retest).",
    "DESIGN.md §2 C06",
)
CLAIMED["C04"] = (
    "exploration",
    "property-based testing (Hypothesis): differential against a long-double reference of the documented formula + metamorphic relations (permutation, rescaling, normalisation)",
    "Histories are generated through the public StateManager API (unequal batches, betas in any order, logz_t in +-1e3, log-likelihoods "
    "spanning +-1e6); normalised and unnormalised log-weights and the evidence are compared with an independent 80-bit implementation of "
    "the documented formula, and three metamorphic relations are checked on every case. A generated-input differential is the right level "
    "for a closed-form numerical routine: any change of the formula shows up on the first non-trivial history.",
    "Tolerance (64+4N)*eps*max(1,M); trusts numpy long double and the reference written from the docstring/paper formula.",
    "DESIGN.md §2 C04",
)
CLAIMED["C20"] = (
    "exploration",
    "property-based testing (Hypothesis): invariants (range, upper-set, alignment) and metamorphic relations (weight rescaling, affine maps) with long-double ESS reference",
    "Generated weight vectors (to 10^4 entries, 300 decades, zeros, ties), trimming parameters and sample clouds with affine maps up to "
    "condition 1e6; ESS range/scale invariance/uniform value, the trimming contract (normalised, exact upper set, ESS fraction, alignment) "
    "and non-negativity plus affine/scale invariance of the volume metric are asserted with stated floating-point tolerances.",
    "Affine invariance is asserted only below cond(Cov)=1e13 (the documented regularisation branch is beyond); tolerances include the rounding already present in the mapped inputs.",
    "DESIGN.md §2 C20",
)
CLAIMED["C19"] = (
    "exploration",
    "property-based testing (Hypothesis): invariants + metamorphic equivariance (scaling/translation/permutation) + parameter recovery on large generated t samples + scripted non-finite fit results for the fallback",
    "Generated data sets (d 1..8, Gaussian / heavy-tailed / skewed / contaminated, scalings over 12 decades, far translations) are fitted "
    "twice (original and transformed) and compared; well-posedness invariants are asserted on every fit; recovery of (nu, scale) is tested on "
    "n=20000 multivariate-t samples; ModeStatistics is driven with the fit's nu replaced by nan/+-inf to test the fallback, and what it hands "
    "to the kernel is checked as one object: Cholesky factor and inverse must belong to the covariance it exposes, and the whole object must be "
    "equivariant under per-coordinate scaling (1e-6..1e6), translation and permutation (from_particles / from_global / constructor). "
    "Known finding K5 (nu is always inf) is reported, not hidden.",
    "Recovery bounds are generous asymptotic ones (25% on nu, 10% on the scale matrix); equivariance tolerance includes the rounding of the transformed inputs.",
    "DESIGN.md §2 C19",
)
CLAIMED["C15"] = (
    "exploration",
    "property-based testing (Hypothesis): invariants of GaussianMixture / HierarchicalGaussianMixture on adversarial weighted data + metamorphic replication relation (integer weights == repeated rows under an identical EM schedule)",
    "Adversarial weighted data sets (separated/overlapping/nested/duplicated/constant coordinate/tiny-huge scale/far from origin; uniform to "
    "half-zero and 30-sigma log-normal weights; full and diag) are fitted; component weights, covariance symmetry/PSD, means-in-box, label "
    "range and uniqueness, cluster cap, minimum cluster size and predict/predict_proba on inside/far/duplicate queries are asserted; the "
    "replication relation pins the meaning of sample weights. Known finding K6 (absolute regularisers break large-scale data) is classified by data spread.",
    "Replication compared at 1e-8; means-in-box inflated by 1e-6*max|X| for the stated 1e-10 regulariser; predict_proba row sums only asserted for in-box queries.",
    "DESIGN.md §2 C15",
)
CLAIMED["C07"] = (
    "exploration",
    "generated sampler runs over a verified t-wise covering array of the option lattice, instrumented exact-arithmetic target, invariant checked after every pipeline step and on every returned array; failing rows shrunk factor-by-factor",
    "Every row of a pairwise (quick) / 3-wise (thorough) covering array of kernel x resampler x clustering x evaluation mode x boundary types x "
    "metric x zero-likelihood region x dimension is executed as a full run with a case seed; after resample, after mutate, at commit, on "
    "parallel_mcmc's return value and on everything sample()/posterior(16 option combinations)/results() return, each particle must satisfy "
    "x == pt(u), logl == L(x), blob == b(x) exactly and u in [0,1]^d. Exactness is possible because the target is instrumented. Blobs come in six forms (float with / without blobs_dtype, two floats, structured dtype, one array-valued blob with a sub-array dtype, variable-length strings). A third of the complete-configuration cases give the sampler a second life: a sibling run's checkpoint is loaded into the used object, then posterior() and one more sample() must still return and store whole records. A second check (*_full) applies the same oracle to complete random configurations from vlib.cfggen, in which every constructor option (all evaluation modes incl. two blobs, metric mode, cluster cadence and caps, odd particle counts, step limits, boundary index lists, pool kinds, extra likelihood arguments, integer / NumPy-integer / no random_state) gets a generated value in every case.",
    "Observation points are wrapped at run time (no source hooks); a refactor that removes them yields exit 2, not a violation.",
    "DESIGN.md §2 C07",
)
CLAIMED["C12"] = (
    "exploration",
    "generated sampler runs over a verified t-wise covering array + all 2^4 posterior option combinations; invariants against a long-double reference recomputed from the stored history; instrumented target for exact row alignment",
    "After each generated run the postconditions (|1-beta|<1e-4, reference ESS of the reference weights >= n_total, evidence() == reference MIS "
    "evidence at beta=1) are checked, then posterior() is called with all 16 option combinations and seed-drawn trimming parameters: arity, equal "
    "lengths, probability weights, uniform weights after resampling, and row-by-row alignment of x/logl/blob (exact, instrumented target) and of "
    "the log-weights (each equals the reference MIS log-weight of its own sample). Sequences of run() calls (first request with checkpoints, a fresh sampler resumed with another request, the same object resumed again with a larger one) owe the postconditions of each request; the posterior() contract is also demanded after one more sample(). A second check (*_full) applies the same oracle to complete random configurations from vlib.cfggen, in which every constructor option (all evaluation modes incl. two blobs, metric mode, cluster cadence and caps, odd particle counts, step limits, boundary index lists, pool kinds, extra likelihood arguments, integer / NumPy-integer / no random_state) gets a generated value in every case.",
    "Reference = vlib.refs (long double). The log-weight alignment relies on the MIS weight being a function of logl alone.",
    "DESIGN.md §2 C12",
)
CLAIMED["C11"] = (
    "exploration",
    "property-based testing (Hypothesis) of sampler runs on targets with a zero-likelihood half-space: hull invariant on every recorded warm-up evidence, no -inf stored anywhere; seeded ensembles with a two-stage t-test for the final evidence",
    "Supported fraction, warm-up length (ess_ratio), N, kernel and evaluation mode are generated; the instrumented likelihood counts finite/total "
    "per prior batch; every log-evidence recorded at beta=0 must lie in the range of the batch fractions seen so far (counted once), no stored "
    "log-likelihood may be -inf, and the final evidence is tested against the analytic value over independently seeded runs. A second check (*_full) applies the same oracle to complete random configurations from vlib.cfggen, in which every constructor option (all evaluation modes incl. two blobs, metric mode, cluster cadence and caps, odd particle counts, step limits, boundary index lists, pool kinds, extra likelihood arguments, integer / NumPy-integer / no random_state) gets a generated value in every case.",
    "A prior batch without any finite draw is reported (finding K7: the -inf particles are kept and the batch evidence becomes log 0); ensembles skip such replicas. The ensemble part has a stated statistical resolution.",
    "DESIGN.md §2 C11",
)
CLAIMED["C09"] = (
    "exploration",
    "property-based testing (Hypothesis): differential (same random_state twice, interleaved global draws) + metamorphic 'the seed in force before still matters' on mixture fits and on twin samplers in bit-identical states",
    "Generated sampler configurations are constructed and run twice with the same random_state inside one process with arbitrary global draws "
    "in between (bit-identical histories, weights, evidence required; a different random_state must change them). For every library operation "
    "named in the property the next global random number after the operation must depend on the seed set before it, and twin samplers whose "
    "seeds diverge at a generated iteration index must produce different batches from then on. During every sampler operation numpy.random.seed is observed directly: a call with a fixed value after construction is the reset the property forbids (the indirect test only sees a reset that is the last random event of the operation). A second check (*_full) applies the same oracle to complete random configurations from vlib.cfggen, in which every constructor option (all evaluation modes incl. two blobs, metric mode, cluster cadence and caps, odd particle counts, step limits, boundary index lists, pool kinds, extra likelihood arguments, integer / NumPy-integer / no random_state) gets a generated value in every case.",
    "Only numpy's global stream is observed (the library uses nothing else). Statistical independence itself is not decidable from samples; the mechanism that could couple runs is what is tested.",
    "DESIGN.md §2 C09",
)
CLAIMED["C10"] = (
    "exploration",
    "property-based testing (Hypothesis): metamorphic relation between paired seeded runs with logL and logL+c",
    "For generated configurations, seeds and shifts c in +-[1e-3,1e3] the two runs must have the same number of iterations, temperatures, "
    "particles (to 1e-12), call counts, ESS sequence and posterior weights, every recorded log-evidence must shift by beta_t*c and the final one by c. A second check (*_full) applies the same oracle to complete random configurations from vlib.cfggen, in which every constructor option (all evaluation modes incl. two blobs, metric mode, cluster cadence and caps, odd particle counts, step limits, boundary index lists, pool kinds, extra likelihood arguments, integer / NumPy-integer / no random_state) gets a generated value in every case.",
    "A mismatch is re-tested once with the neighbouring seed before it is reported (rounding can flip one accept/reject decision with probability ~1e-13|c|).",
    "DESIGN.md §2 C10",
)
CLAIMED["C13"] = (
    "exploration",
    "property-based testing (Hypothesis): differential between evaluation modes under one seed (scalar / vectorised / pool-like object with scripted completion order / pool=1 / real 2-worker pool) + exact call-count invariant at every commit",
    "Each generated case runs the same seeded sampler under every evaluation mode of its group with a pointwise bit-identical instrumented "
    "likelihood and compares full histories, weights and evidence bit for bit; at every commit the reported number of calls must equal the "
    "number of points the instrumented likelihood has seen. A second check (*_full) applies the same oracle to complete random configurations from vlib.cfggen, in which every constructor option (all evaluation modes incl. two blobs, metric mode, cluster cadence and caps, odd particle counts, step limits, boundary index lists, pool kinds, extra likelihood arguments, integer / NumPy-integer / no random_state) gets a generated value in every case.",
    "With a real worker pool evaluations happen in other processes; the count is then compared with the verified in-process twin.",
    "DESIGN.md §2 C13",
)
CLAIMED["C17"] = (
    "exploration",
    "model-based stateful property testing (Hypothesis-generated operation sequences, shrunk as one value) of StateManager against a pure-Python model, and of a real Sampler against an untouched twin; every returned array is overwritten by the harness",
    "Operation sequences over the whole public StateManager API are generated; every array any operation returns is overwritten at once; after "
    "every step all public reads are compared bit for bit with a pure-Python model (current state, every committed batch, history lengths), so "
    "aliasing and any change to an earlier batch are caught at the step where they happen. A second machine drives a real Sampler "
    "(sample/posterior/results/to_dict/getters/evidence) against a twin whose outputs are left alone.",
    "copy=False hands ownership to the state by contract and dictionaries passed to from_dict/update_from_dict are user input; neither is scribbled on.",
    "DESIGN.md §2 C17",
)
CLAIMED["C08"] = (
    "fault_enumeration",
    "property-based testing (Hypothesis) of save/load/resume differentials against snapshots taken at save time + exhaustive process-death injection (forked child dies before/after every IO call and at byte offsets inside every write) against a loadable-old-or-new oracle",
    "Every checkpoint written by a generated run (all indices and the final one; pool objects, integer pools, blobs, clustering) is loaded into "
    "a freshly constructed sampler and compared bit for bit with a snapshot taken at the moment of the save, then resumed from (prefix "
    "bit-identical, contiguous iteration numbers, calls = restored + counted, monotone beta, run postconditions). In half of the cases the sampler "
    "object that wrote the checkpoints lives on: a sibling run's checkpoint is loaded into it (it must then equal a fresh sampler that loaded the "
    "same file: state, posterior() outputs, next sample() under the same stream) and it is rewound to one of its own checkpoints and writes "
    "checkpoints again, each of which must restore the state that existed when it was rewritten. The save itself is executed "
    "in a forked child once per crash point: the IO calls it makes are enumerated by a dry run and the child is killed before and after each "
    "one and at offsets inside each write, with the final name absent or holding an older checkpoint; the final name must then be absent or "
    "hold a complete checkpoint equal to the old or the new state. Enumeration is exhaustive over IO-call boundaries, sampled inside writes.",
    "Process death only (no power loss: fsync durability is not observable from user space). IO is observed through open/io.open, file write/flush, os.fsync/replace/rename.",
    "DESIGN.md §2 C08",
)
CLAIMED["C05"] = (
    "exploration",
    "property-based testing (Hypothesis): Reweighter.run on generated histories and after every reweighting step of generated runs, against a long-double reference of weights/evidence/ESS and an existence oracle for the ESS-limited temperature",
    "Generated histories (realistic tempered families, perturbed evidences, adversarial non-monotone ESS curves; several beta=0 batches; ESS and "
    "volume-variation modes) are handed to the real Reweighter; the new temperature must satisfy 0<=beta-<=beta+<=1, the returned weights, the "
    "recorded evidence and the recorded ESS must all be the reference values at that same temperature, an advance in ESS mode must keep "
    "ESS>=target and an advance in volume-variation mode must not pass every temperature with ESS>=target. A third of the synthetic cases "
    "replace the history of the SAME StateManager/Reweighter (import or load) by another one of the same extent and judge the next step on the "
    "new history. The same oracle runs after each Reweighter.run() of real sampler runs, a third of which rewind the same sampler object to "
    "an earlier checkpoint.",
    "Reference = vlib.refs; 'not beyond the ESS limit' is decided on beta+, the limit the code computed (when observable) and a 400-point grid.",
    "DESIGN.md §2 C05",
)
CLAIMED["C14"] = (
    "exploration",
    "property-based testing (Hypothesis): invariants on what mutation receives (parallel_mcmc wrapped) over generated multimodal runs x cadence x caps x resume, and on Trainer/Resampler outputs over generated weighted pools with dying and fading modes",
    "At every mutation of generated multimodal runs (cluster_every in {1,2,3,5}, caps, normalize, thresholds, resume from a mid-run checkpoint) "
    "and after every train+resample step on generated weighted pools (including pools where a fitted cluster loses all its trimmed training "
    "points between refits) every active label must index an existing mode, every referenced mode must be finite/SPD/dof>0 and its mean must lie in "
    "the bounding box of the pool points the shared clusterer assigns to that label, its standard deviation within their extent, and its location "
    "along every coordinate within 3 standard deviations of the weighted mean of the trimmed training particles of that label (clusters with enough points only). Pools "
    "include modes that fade to 0.2-0.8% of the weight (trimmed away yet still resampled into).",
    "Provenance is judged on the untrimmed pool (sound for any trimming) and only for labels that had a training point; K4 crashes are classified as the recorded finding.",
    "DESIGN.md §2 C14",
)
CLAIMED["C18"] = (
    "exploration",
    "combinatorial generated testing: verified t-wise covering array over the 13 constructor/run options (each row a full run + postconditions, failures shrunk factor by factor) + Hypothesis one-factor-at-a-time invalid values with an instrumented likelihood",
    "Invalid half: on top of a generated valid base exactly one documented constraint is violated (non-positive / non-integer n_dim or n_particles, "
    "non-positive ess_ratio / volume_variation, unknown kernel / resampler, vectorize with blobs, overlapping / out-of-range / non-integer boundary "
    "indices); the constructor must raise and the instrumented likelihood must have seen 0 points. Valid half: every pair (quick) / triple (thorough) "
    "of values of the 13 options + dimension occurs in at least one executed run (coverage verified and reported); each must complete and satisfy the run postconditions. "
    "A third check (valid_full) runs random complete valid configurations from vlib.cfggen (ten blob forms, empty index lists, default n_particles, a real 2-worker pool), which reach higher-order combinations with high probability; half of them make one more public call (sample()) after the completed run.",
    "t-wise coverage, not the full product (~1e6 combinations); interactions of 4+ options are only sampled. Undocumented values are not asserted either way.",
    "DESIGN.md §2 C18",
)
CLAIMED["C03"] = (
    "exploration",
    "property-based testing with injected randomness (every gamma/normal/uniform variate scripted by Hypothesis) against a reference kernel whose reversibility is closed form + statistical paired-difference invariance test through the real parallel_mcmc from exact draws (two-stage z-test)",
    "(a) For generated runner states (d<=4, K<=3, SPD scales to condition 1e4, nu in [0.5,1e6], boundary subsets, step sizes, beta) the proposal "
    "must equal the reference formula for the scripted variates, the scale variable must be requested from the right Gamma law, the acceptance factor "
    "must equal the Student-t log-density ratio (cross-checked with SciPy), one full parallel_mcmc iteration must equal the reference Metropolis update "
    "with u, x, logL and blobs moved together, and the reference proposal itself is checked to satisfy t(u)q(u,u') = t(u')q(u',u) in closed form - "
    "so (a) pins the kernel to one whose detailed balance in the interior is a two-line argument. (b) M=2e4..2e5 particles start exactly in generated "
    "tempered targets (truncated normals, von Mises, flat; hard / periodic / reflective coordinates; labels independent of position or assigned by "
    "position) and take the kernel's steps; paired differences of coordinates, squares, products, circular moments and bin indicators must average to zero.",
    "'For every pair of states' is covered by differential testing against a reference plus a short mathematical argument, not by enumeration; the statistical part has a resolution (about 6 standard errors at the stated M). K1 and K3 are recorded findings (classified by kernel+folding, resp. by label scheme + measured cluster-crossing rate).",
    "DESIGN.md §2 C03",
)
CLAIMED["C01"] = (
    "exploration",
    "seeded ensembles of full sampler runs on generated targets with quadrature-known truth; two-stage t-test with a finite-particle allowance (|mean error| <= t* s/sqrt(R) + 3 s^2) per standardised estimand; known-finding classification by kernel/folding/crossing rate",
    "Cells (target family with generated parameters x kernel x resampler x clustering) are generated from VERIF_SEED, stratified over nine target "
    "families (interior, wall-abutting, bimodal, periodic incl. seam-centred, reflective, exp-transformed prior, zero-likelihood slab, likelihood "
    "1000x narrower than the prior, periodic next to wall-abutting) plus a large-N cell with a paired trimmed-vs-untrimmed test and a "
    "volume-variation cell; kernel, clustering and resampler are drawn per family and complemented on the next pass; R "
    "independently seeded complete runs per cell give standardised errors of means, variances, marginal CDF, mode mass and circular moments for "
    "both the untrimmed and the default trimmed posterior() output; a systematic error beyond Monte-Carlo error plus an allowance that shrinks "
    "like 1/N is flagged, re-run with fresh seeds and twice the replicas, and only then reported. The claim is about the ensemble of seeds, which "
    "only replicated generated runs can address.",
    "A statistical verdict bounds a bias, it does not prove its absence: resolution ~0.1 sd (means) / ~15% (variances) quick, a few % thorough. Truth = composite Simpson quadrature, independent of tempest.",
    "DESIGN.md §2 C01",
)
CLAIMED["C02"] = (
    "exploration",
    "seeded ensembles at N and 4N against quadrature-known log-evidence (two-stage t-test, Jensen allowance 1.5 s^2, spread must shrink) + metamorphic twin samplers whose seeds diverge at a generated iteration",
    "For generated cells the mean error of log Z over R independently seeded runs must be within t* s/sqrt(R) + 1.5 s^2 at N and again at 4N "
    "(an error that persists fails at 4N), the per-run spread must shrink by at least 0.8 from N to 4N, and - since the bound on the R-replica "
    "mean shrinks like 1/sqrt(R) - a component common to all runs fails it. Independence is additionally decided through its mechanism: twin "
    "samplers in bit-identical states must produce different batches and a different global stream after their seeds diverge.",
    "Statistical independence cannot be established from samples; what is tested is the coupling mechanism and its visible consequence. Resolution is reported per cell in the evidence.",
    "DESIGN.md §2 C02",
)

ALL = [f"C{i:02d}" for i in range(1, 21)]


def build():
    checks = []
    for pid in ALL:
        if pid not in CLAIMED:
            continue
        cat, tech, text, note, ref = CLAIMED[pid]
        checks.append(
            {
                "property_id": pid,
                "quick_cmd": f"./check {pid} --tier quick",
                "thorough_cmd": f"./check {pid} --tier thorough",
                "evidence_file": f"/verif/evidence/{pid}.json",
                "replay_cmd_template": f"./check {pid} --replay {{path}}",
                "engine": "vlib",
                "level_claimed": {"category": cat, "text": text, "design_ref": ref},
                "level_note": note,
                "technique": tech,
            }
        )
    na = [
        {"property_id": pid, "reason": "check not built yet in this session (work in progress; see DESIGN.md §2 for the planned oracle)"}
        for pid in ALL
        if pid not in CLAIMED
    ]
    m = {
        "version": 1,
        "setup_cmd": "/venv/bin/python -c 'import hypothesis' 2>/dev/null || /venv/bin/pip install --no-index --find-links /opt/veriftools/wheels hypothesis; "
        "/venv/bin/python -c 'import hypothesis, numpy, scipy, dill, multiprocess; print(\"setup ok\")'",
        "hooks": {
            "guard": "TEMPEST_VERIF",
            "enable": "none needed: no instrumentation is committed to minaskar/tempest; checks import /repo's working tree "
            "(TEMPEST_SRC, default /repo) and wrap methods, numpy.random and IO calls at run time",
            "baseline_off_cmd": "cd /repo && /venv/bin/python -m pytest -ra -q -p no:cacheprovider --timeout=900 --continue-on-collection-errors",
            "source_commits": [],
            "add_only": True,
        },
        "engines": [
            {
                "name": "vlib",
                "path": "/verif/vlib",
                "serves_properties": sorted(CLAIMED),
                "kind_free_text": "Hypothesis 6.168 driver (seeded, sharded over 16 processes, shrink capture -> JSON replay files, "
                "known-finding classification) + reference implementations, scripted numpy.random, fork-based crash injection",
            }
        ],
        "checks": checks,
        "not_applicable": na,
        "notes": "Every check: ./check <id> --tier quick|thorough; exit 0 held / 1 VIOLATION / 2 harness error. "
        "VERIF_SEED seeds Hypothesis and every numpy stream. TEMPEST_SRC points the same checks at a scratch copy (mutant self-test).",
    }
    if not na:
        m.pop("not_applicable")
    return m


if __name__ == "__main__":
    m = build()
    with open(os.path.join(ROOT, "MANIFEST.json"), "w") as f:
        json.dump(m, f, indent=1)
    print("wrote MANIFEST.json with", len(m["checks"]), "checks;", len(m.get("not_applicable", [])), "not claimed")
