"""Scripted replacements for the numpy.random module-level functions the library draws from."""
import contextlib

import numpy as np

from .core import HarnessError


@contextlib.contextmanager
def scripted_uniform(u0):
    """Every scalar uniform draw from numpy's global stream returns u0. Counts calls."""
    calls = {"n": 0}

    def scal(*a, **k):
        calls["n"] += 1
        size = None
        if a:
            size = a[0] if len(a) == 1 else a
        size = k.get("size", size)
        if size is None:
            return float(u0)
        return np.full(size, float(u0))

    def rand(*shape):
        calls["n"] += 1
        if not shape:
            return float(u0)
        return np.full(shape, float(u0))

    def uniform(low=0.0, high=1.0, size=None):
        calls["n"] += 1
        if size is None:
            return low + (high - low) * float(u0)
        return np.full(size, low + (high - low) * float(u0))

    saved = {n: getattr(np.random, n) for n in ("random", "random_sample", "rand", "uniform", "ranf", "sample") if hasattr(np.random, n)}
    try:
        for n in saved:
            setattr(np.random, n, rand if n == "rand" else uniform if n == "uniform" else scal)
        yield calls
    finally:
        for n, f in saved.items():
            setattr(np.random, n, f)


def need_calls(calls, what):
    if calls["n"] == 0:
        raise HarnessError(
            f"{what}: the routine no longer draws its offset from numpy's module-level uniform functions; "
            "the harness cannot script it (observation point missing)"
        )
