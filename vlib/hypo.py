"""Hypothesis driver: seeded, sharded, shrink capture, known-finding aware."""
import os
import sys
import traceback

import hypothesis
from hypothesis import HealthCheck, Phase, given, settings
from hypothesis import seed as hseed

from .core import HarnessError, Recorder, Violation, exc_sig, tempest_frame


class Check:
    def __init__(self, name, strategy, execute, n, shards=None, shrink=None, doc=""):
        self.name = name
        self.strategy = strategy  # () -> hypothesis strategy of JSON-able cases
        self.execute = execute  # case -> dict(nontrivial=..., classes=[...], sample=...)
        self.n = n  # {"quick": int, "thorough": int} total examples
        self.shards = shards or {"quick": 8, "thorough": 16}
        self.shrink = shrink or {"quick": True, "thorough": True}
        self.doc = doc


def guarded(execute, case):
    """Run execute(case); an exception that passed through tempest code is a Violation
    (classified by type + innermost tempest frame); anything else is a harness error."""
    try:
        return execute(case) or {}
    except Violation:
        raise
    except hypothesis.errors.HypothesisException:
        raise
    except HarnessError:
        raise
    except Exception as e:  # noqa
        fr = tempest_frame(e.__traceback__)
        if fr is None:
            raise
        raise Violation(
            f"unexpected {type(e).__name__}: {str(e)[:200]} (at {fr})",
            sig={"kind": "exception", **exc_sig(e)},
        ) from e


def run_shard(pid, tier, seed, check, shard, n_examples):
    """Run one shard of one check under Hypothesis; returns Recorder.export()."""
    rec = Recorder(pid, tier, seed)
    last = {}
    first = {"pending": shard > 0}

    def body(case):
        # Hypothesis always starts with the all-minimal example; only shard 0 executes it
        if first["pending"]:
            first["pending"] = False
            return
        try:
            info = guarded(check.execute, case)
        except Violation as v:
            f = rec.classify(check.name, v)
            if f is not None:
                rec.known(f, check.name, v)
                rec.record(check.name, case, False, ["known:" + f["id"]])
                return
            last["v"], last["case"] = v, case
            raise
        rec.record(
            check.name,
            case,
            nontrivial=bool(info.get("nontrivial", False)),
            classes=info.get("classes", ()),
            sample=info.get("sample"),
        )

    phases = [Phase.generate]
    if check.shrink.get(tier, True):
        phases.append(Phase.shrink)
    st = settings(
        max_examples=max(1, n_examples) + (1 if shard > 0 else 0),
        database=None,
        deadline=None,
        derandomize=False,
        report_multiple_bugs=False,
        phases=phases,
        suppress_health_check=list(HealthCheck),
        print_blob=False,
        verbosity=hypothesis.Verbosity.quiet,
    )
    test = hseed(seed * 1000 + shard)(st(given(check.strategy())(body)))
    try:
        test()
    except Violation:
        rec.violation(check.name, last["v"], last["case"])
    except BaseException as e:  # noqa  (Flaky, health check, harness bug)
        if isinstance(e, (KeyboardInterrupt, SystemExit)):
            raise
        if "case" in last:
            # hypothesis could not reproduce its own failure: decide by direct re-execution
            try:
                guarded(check.execute, last["case"])
            except Violation as v:
                rec.violation(check.name, v, last["case"])
            else:
                rec.notes[f"{check.name}:flaky-not-reproduced"] += 1
        else:
            raise HarnessError(
                f"{check.name} shard {shard}: {type(e).__name__}: {e}\n{traceback.format_exc()}"
            )
    return rec.export()


def replay_case(check, case):
    """Direct execution without Hypothesis. Returns None or the Violation."""
    try:
        guarded(check.execute, case)
    except Violation as v:
        return v
    return None
