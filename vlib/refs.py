"""Independent reference formulas (never import tempest here)."""
import numpy as np

LD = np.longdouble


def lse_ld(a, axis=None):
    """log-sum-exp in 80-bit long double, max-shifted."""
    a = np.asarray(a, dtype=LD)
    m = np.max(a, axis=axis, keepdims=True)
    m = np.where(np.isfinite(m), m, LD(0))
    s = np.log(np.sum(np.exp(a - m), axis=axis, keepdims=True)) + m
    if axis is None:
        return s.reshape(())[()]
    return np.squeeze(s, axis=axis)


def mis_logw(logl_batches, betas, logzs, beta, normalize=True):
    """Balance-heuristic mixture importance weights (the documented formula).

    logw_s = beta*logl_s - log sum_t (n_t/N) exp(beta_t*logl_s - logz_t);
    logz   = log mean exp(logw)   (unnormalised logw)
    Returns (logw [float64 array from long double], logz, M) where M is the largest
    intermediate magnitude (for tolerances)."""
    n = np.array([len(b) for b in logl_batches], dtype=LD)
    N = n.sum()
    L = np.concatenate([np.asarray(b, dtype=LD) for b in logl_batches])
    bt = np.asarray(betas, dtype=LD)
    lz = np.asarray(logzs, dtype=LD)
    comp = L[:, None] * bt[None, :] - lz[None, :] + (np.log(n) - np.log(N))[None, :]
    B = lse_ld(comp, axis=1)
    lw = LD(beta) * L - B
    logz = lse_ld(lw) - np.log(LD(len(L)))
    M = float(max(np.max(np.abs(L[:, None] * bt[None, :])) + np.max(np.abs(lz)), np.max(np.abs(LD(beta) * L)), 1.0))
    if normalize:
        lw = lw - lse_ld(lw)
    return lw, logz, M


def ess_from_logw(lw):
    lw = np.asarray(lw, dtype=LD)
    w = np.exp(lw - np.max(lw))
    w = w / w.sum()
    return float(1.0 / np.sum(w * w))


def norm_weights(lw):
    lw = np.asarray(lw, dtype=LD)
    w = np.exp(lw - lse_ld(lw))
    return np.asarray(w, dtype=np.float64)
