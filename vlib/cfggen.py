"""One generator for *complete* sampler configurations, shared by the sampler-level checks.

Every constructor / run option gets a generated value in every case (not only the options a property is "about"): seeded
changes kept showing that defects hide in option combinations a property-specific generator never tries.
A case is a JSON dict; build(case) returns (sampler, target).
"""
import numpy as np
from hypothesis import strategies as st

from .targets import BLOB_MODES, PermutingPool, ScriptedExecutor, Target, simple_target_spec


class LLExtra:
    """user likelihood with an extra positional and an extra keyword parameter (defaults differ from the configured values)"""

    def __init__(self, base, nblob):
        self.base, self.nblob = base, nblob

    def __call__(self, x, add=0.0, mul=1.0):
        r = self.base(x)
        if self.nblob:
            return (r[0] * mul + add,) + tuple(r[1:])
        return r * mul + add


@st.composite
def full_config(draw, modes=("vector", "scalar", "blobs", "blobs2", "blobs_auto", "blobs_str", "blobs_rec", "blobs_arr", "blobs_f4", "blobs_int"), pools=(None, None, "permuting", "executor", 1), allow_zero=True,
                max_d=3, allow_narrow=True, allow_extra=True, metrics=("ess", "ess", "vv0.3", "vv2", "vv0.1")):
    d = draw(st.integers(1, max_d))
    mode = draw(st.sampled_from(list(modes)))
    bsel = draw(st.sampled_from(["none", "none", "periodic", "reflective", "both"]))
    if bsel == "both" and d < 2:
        bsel = "periodic"
    idx = draw(st.permutations(list(range(d))))
    # "no such coordinates" may be said as None or as an empty list
    none_as = draw(st.sampled_from([None, None, []]))
    periodic = [idx[0]] if bsel in ("periodic", "both") else none_as
    reflective = [idx[1 if bsel == "both" else 0]] if bsel in ("reflective", "both") else (None if none_as is None else [])
    steps = draw(st.sampled_from([None, None, (1, 2), (2, 5)]))
    # one case in eight leaves n_particles to the constructor's default (2 * n_dim): very small batches
    np_default = draw(st.integers(0, 7)) == 0
    n_particles = 2 * d if np_default else draw(st.sampled_from([16, 24, 17, 32]))
    return {
        "np_default": np_default,
        "d": d, "mode": mode, "tseed": draw(st.integers(0, 10**6)), # (a zero-likelihood region next to batches of 2*d draws mostly produces batches without any supported draw: finding K7)
        "zero": allow_zero and draw(st.booleans()) and not np_default,
        "narrow": draw(st.sampled_from([1.0, 1.0, 1.0, 0.2])) if allow_narrow else 1.0,
        "kernel": draw(st.sampled_from(["tpcn", "rwm"])), "resample": draw(st.sampled_from(["mult", "syst"])),
        "clustering": draw(st.booleans()), "normalize": draw(st.booleans()), "cluster_every": draw(st.sampled_from([1, 1, 2, 3])),
        "n_max_clusters": draw(st.sampled_from([None, None, 1, 2, 4])), "split_threshold": draw(st.sampled_from([1.0, 0.3, 3.0])),
        "ess_ratio": draw(st.sampled_from([2.0, 1.0, 3.5, 1.3, 2.45])), "metric": draw(st.sampled_from(list(metrics))),
        "n_particles": n_particles, "n_steps": None if steps is None else steps[0],
        "n_max_steps": None if steps is None else steps[1], "periodic": periodic, "reflective": reflective,
        "pool": draw(st.sampled_from(list(pools))) if mode != "vector" else draw(st.sampled_from([None, None, "permuting"])),
        "pool_seed": draw(st.integers(0, 10**6)),
        "ll_extra": draw(st.sampled_from(["none", "none", "none", "args", "kwargs", "both"])) if allow_extra else "none",
        "random_state": draw(st.sampled_from([None, None, "int", "np"])), "rs_value": draw(st.integers(0, 2**31 - 2)),
    }


def make_target(case, shift=0.0):
    spec = simple_target_spec(np.random.default_rng(case["tseed"]), case["d"], case["mode"], zero=case.get("zero", False))
    spec["width"] = [w * float(case.get("narrow", 1.0)) for w in spec["width"]]
    spec["shift"] = float(shift)
    t = Target.from_spec(spec)
    t.reuse_out = case["mode"] == "vector" and case.get("tseed", 0) % 2 == 1  # half of the vectorised likelihoods reuse their output buffer
    return t


def build(case, target=None, output_dir=None, random_state="case", n_particles=None, pool="case"):
    """Returns (sampler, target). random_state='case' uses the case's own choice; pass None / an int to override."""
    from tempest import Sampler

    t = target or make_target(case)
    kw = t.sampler_kwargs()
    nblob = BLOB_MODES.get(case["mode"], 0)
    extra = case.get("ll_extra", "none")
    if extra != "none":
        kw["log_likelihood"] = LLExtra(t.loglike, nblob)
        if extra in ("args", "both"):
            kw["log_likelihood_args"] = [0.25]
        if extra in ("kwargs", "both"):
            kw["log_likelihood_kwargs"] = {"mul": 0.5}
    p = case.get("pool") if pool == "case" else pool
    if p == "permuting":
        p = PermutingPool(case.get("pool_seed", 0))
    elif p == "executor":
        p = ScriptedExecutor(case.get("pool_seed", 0))
    if random_state == "case":
        rs = {None: None, "int": int(case["rs_value"]), "np": np.int64(case["rs_value"])}[case.get("random_state")]
    else:
        rs = random_state
    m = case.get("metric", "ess")
    kw.update(dict(sample=case["kernel"], resample=case["resample"], clustering=case["clustering"], normalize=case["normalize"],
                   cluster_every=case["cluster_every"], n_max_clusters=case["n_max_clusters"], split_threshold=case["split_threshold"],
                   ess_ratio=case["ess_ratio"], volume_variation=None if m == "ess" else float(m[2:]),
                   n_particles=None if (case.get("np_default") and n_particles is None) else int(n_particles or case["n_particles"]), n_steps=case["n_steps"], n_max_steps=case["n_max_steps"],
                   periodic=case["periodic"], reflective=case["reflective"], pool=p, random_state=rs))
    if output_dir is not None:
        kw["output_dir"] = output_dir
    return Sampler(**kw), t


def ll_of(case, t, x_row):
    """log-likelihood the sampler sees for one row (including the extra args of the case)"""
    v = t.ll_row(x_row)
    extra = case.get("ll_extra", "none")
    mul = 0.5 if extra in ("kwargs", "both") else 1.0
    add = 0.25 if extra in ("args", "both") else 0.0
    return v * mul + add


def summary(case):
    keys = ("np_default", "d", "mode", "kernel", "resample", "clustering", "cluster_every", "n_max_clusters", "metric", "ess_ratio", "n_particles",
            "periodic", "reflective", "pool", "ll_extra", "random_state", "zero", "narrow")
    return {k: case.get(k) for k in keys}
