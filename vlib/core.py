"""Shared harness: import of the tree under test, violation/record plumbing,
known-finding classification, evidence and replay files.

A check is a pure function of (working tree, VERIF_SEED, tier). Nothing here
reads the wall clock for a verdict.
"""
import collections
import hashlib
import json
import math
import os
import sys
import time
import traceback

VERIF_ROOT = os.path.dirname(os.path.dirname(os.path.abspath(__file__)))
TEMPEST_SRC = os.path.abspath(os.environ.get("TEMPEST_SRC", "/repo"))


class Violation(Exception):
    """The property under test does not hold for this case."""

    def __init__(self, msg, sig=None, detail=None):
        super().__init__(msg)
        self.msg = msg
        self.sig = dict(sig or {})
        self.detail = detail


class HarnessError(Exception):
    """The harness cannot observe what it needs (exit 2, never a violation)."""


def import_tempest():
    """Import tempest from TEMPEST_SRC (default /repo) and make sure it is that copy."""
    if TEMPEST_SRC not in sys.path[:1]:
        sys.path.insert(0, TEMPEST_SRC)
    import tempest  # noqa

    f = os.path.abspath(tempest.__file__)
    if not f.startswith(TEMPEST_SRC + os.sep):
        raise HarnessError(f"tempest imported from {f}, expected under {TEMPEST_SRC}")
    return tempest


def tempest_frame(tb):
    """Innermost traceback frame that lies in the tempest package: 'file.py:func'."""
    root = os.path.join(TEMPEST_SRC, "tempest") + os.sep
    found = None
    for fs in traceback.extract_tb(tb):
        fn = os.path.abspath(fs.filename)
        if fn.startswith(root):
            found = f"{fn[len(root):]}:{fs.name}"
    return found


def exc_sig(e):
    """Signature of an exception escaping from the library: type + innermost tempest frame."""
    return {"exc": type(e).__name__, "frame": tempest_frame(e.__traceback__)}


def lib_call(fn, *a, what="call", **k):
    """Call into the library; an exception is a Violation (classified by type+frame)."""
    try:
        return fn(*a, **k)
    except Violation:
        raise
    except Exception as e:  # noqa
        sig = exc_sig(e)
        raise Violation(
            f"{what} raised {type(e).__name__}: {str(e)[:200]} (at {sig['frame']})",
            sig={"kind": "exception", **sig},
        ) from e


# --------------------------------------------------------------------------- JSON helpers


def jsonable(o):
    import numpy as np

    if isinstance(o, dict):
        return {str(k): jsonable(v) for k, v in o.items()}
    if isinstance(o, (list, tuple)):
        return [jsonable(v) for v in o]
    if isinstance(o, np.ndarray):
        return jsonable(o.tolist())
    if isinstance(o, (np.integer,)):
        return int(o)
    if isinstance(o, (np.floating,)):
        return jsonable(float(o))
    if isinstance(o, (np.bool_,)):
        return bool(o)
    if isinstance(o, float):
        if math.isnan(o):
            return "nan"
        if math.isinf(o):
            return "inf" if o > 0 else "-inf"
        return o
    if isinstance(o, (int, str, bool)) or o is None:
        return o
    return repr(o)


def fl(x):
    """Inverse of jsonable() for floats."""
    if isinstance(x, str):
        return float(x)
    return x


def case_hash(case):
    s = json.dumps(jsonable(case), sort_keys=True, separators=(",", ":"))
    return hashlib.sha1(s.encode()).hexdigest()[:16]


def short(o, n=400):
    s = json.dumps(jsonable(o), sort_keys=True)
    return s if len(s) <= n else s[: n - 3] + "..."


# --------------------------------------------------------------------------- known findings


def load_findings():
    p = os.path.join(VERIF_ROOT, "known_findings.json")
    if not os.path.exists(p):
        return []
    with open(p) as f:
        return json.load(f).get("findings", [])


def match_finding(findings, pid, check, sig):
    """An *open* finding matches when it lists this property and every key of its
    matcher equals the corresponding key of the failure signature (a matcher value
    that is a list means 'one of')."""
    for f in findings:
        if f.get("status") != "open":
            continue
        # "properties": the finding is a defect against these (their checks reproduce it on every run);
        # "tolerated_in": other checks whose generated runs can hit the same defect and must not report it as theirs
        if pid not in f.get("properties", []) and pid not in f.get("tolerated_in", []):
            continue
        alts = f.get("matcher", {})
        alts = alts if isinstance(alts, list) else [alts]
        ok = False
        for m in alts:  # a list of matchers means: any of them
            good = True
            for k, v in m.items():
                got = check if k == "check" else sig.get(k)
                if isinstance(v, list):
                    if got not in v:
                        good = False
                elif got != v:
                    good = False
            if good:
                ok = True
                break
        if ok:
            return f
    return None


# --------------------------------------------------------------------------- recorder


class Recorder:
    """Per-process accumulator; shards return .export() and the parent merges."""

    MAX_SAMPLES = 8

    def __init__(self, pid, tier, seed):
        self.pid, self.tier, self.seed = pid, tier, seed
        self.evaluations = 0
        self.nontrivial = set()
        self.classes = collections.Counter()
        self.samples = []
        self.violations = []  # dicts: check, sig, msg, case
        self.known_hits = collections.Counter()
        self.known_msgs = {}
        self.notes = collections.Counter()
        self.extra = {}
        self.findings = load_findings()

    # a case that was executed
    def record(self, check, case, nontrivial=False, classes=(), sample=None):
        self.evaluations += 1
        self.classes[f"{check}:cases"] += 1
        for c in classes:
            self.classes[f"{check}:{c}"] += 1
        if nontrivial:
            h = case_hash([check, case])
            if h not in self.nontrivial:
                self.nontrivial.add(h)
                if len([s for s in self.samples if s["check"] == check]) < 2:
                    obj = jsonable(sample if sample is not None else case)
                    if len(json.dumps(obj)) > 900:
                        obj = short(obj, 900)
                    self.samples.append({"check": check, "case": obj})

    def classify(self, check, v):
        """Return the matching open finding or None."""
        return match_finding(self.findings, self.pid, check, v.sig)

    def known(self, finding, check, v):
        self.known_hits[finding["id"]] += 1
        self.known_msgs.setdefault(finding["id"], f"{finding['title']} [{check}: {v.msg[:160]}]")

    def violation(self, check, v, case):
        self.violations.append(
            {"check": check, "sig": jsonable(v.sig), "msg": v.msg, "case": jsonable(case),
             "detail": jsonable(v.detail)}
        )

    def export(self):
        return {
            "evaluations": self.evaluations,
            "nontrivial": sorted(self.nontrivial),
            "classes": dict(self.classes),
            "samples": self.samples,
            "violations": self.violations,
            "known_hits": dict(self.known_hits),
            "known_msgs": self.known_msgs,
            "notes": dict(self.notes),
            "extra": self.extra,
        }

    def merge(self, d):
        self.evaluations += d["evaluations"]
        self.nontrivial.update(d["nontrivial"])
        self.classes.update(d["classes"])
        for s in d["samples"]:
            if len([x for x in self.samples if x["check"] == s["check"]]) < 3 and len(self.samples) < 24:
                self.samples.append(s)
        self.violations.extend(d["violations"])
        self.known_hits.update(d["known_hits"])
        for k, m in d["known_msgs"].items():
            self.known_msgs.setdefault(k, m)
        self.notes.update(d["notes"])
        for k, v in d["extra"].items():
            if isinstance(v, list):
                self.extra.setdefault(k, []).extend(v)
            elif isinstance(v, (int, float)) and isinstance(self.extra.get(k, 0), (int, float)):
                self.extra[k] = self.extra.get(k, 0) + v
            else:
                self.extra[k] = v


def write_replay(pid, check, case, msg, sig, detail=None):
    d = os.path.join(os.environ.get("VERIF_REPLAY_DIR") or os.path.join(VERIF_ROOT, "replays"), pid)
    os.makedirs(d, exist_ok=True)
    body = {"property": pid, "check": check, "case": jsonable(case), "message": msg, "sig": jsonable(sig)}
    if detail is not None:
        body["detail"] = jsonable(detail)
    h = case_hash([check, case])
    p = os.path.join(d, f"{check}-{h}.json")
    with open(p, "w") as f:
        json.dump(body, f, indent=1, sort_keys=True)
    return p


def write_evidence(rec, level, rule, wall_s, assumptions, extra_cov=None):
    cov = {
        "evaluations": int(rec.evaluations),
        "distinct_nontrivial": int(len(rec.nontrivial)),
        "rule": rule,
        "samples": rec.samples[:24] if rec.samples else [],
        "class_histogram": dict(sorted(rec.classes.items())),
        "known_finding_hits": dict(rec.known_hits),
        "notes": dict(rec.notes),
    }
    cov.update(jsonable(rec.extra))
    if extra_cov:
        cov.update(extra_cov)
    ev = {
        "property_id": rec.pid,
        "tier": rec.tier,
        "seed": int(rec.seed),
        "level": level,
        "coverage": cov,
        "assumptions": list(assumptions),
        "wall_s": round(float(wall_s), 3),
        "violations": len(rec.violations),
    }
    d = os.environ.get("VERIF_EVIDENCE_DIR") or os.path.join(VERIF_ROOT, "evidence")
    os.makedirs(d, exist_ok=True)
    p = os.path.join(d, f"{rec.pid}.json")
    tmp = p + ".tmp"
    with open(tmp, "w") as f:
        json.dump(jsonable(ev), f, indent=1, sort_keys=True)
    os.replace(tmp, p)
    return p
