"""Seeded ensembles of full sampler runs on targets with known truth (for C01 / C02).

A *cell* = target family with generated parameters x sampler configuration. truth() integrates the likelihood over the unit
cube by deterministic Gauss-Legendre quadrature per coordinate (all targets are sums of products over coordinates), which is
independent of anything in tempest (composite Simpson, 40001 nodes per coordinate). run_replica() runs one seeded Sampler.run and returns the estimates.
"""
import math

import numpy as np
from scipy import stats

from .targets import Target

def simpson_nodes(n=40001):
    """Composite Simpson nodes/weights on [0,1] (n odd)."""
    u = np.linspace(0.0, 1.0, n)
    w = np.ones(n)
    w[1:-1:2], w[2:-1:2] = 4.0, 2.0
    return u, w * (1.0 / (n - 1)) / 3.0


FAMILIES = ["gauss", "wall", "bimodal", "periodic", "reflective", "exp-prior", "zero-region", "narrow", "mixed"]


def make_cell(seed, family=None, kernel=None, clustering=None, resample=None, d=None, N=64, vv=None, mode="vector"):
    rng = np.random.default_rng(seed)
    fam = family or FAMILIES[int(rng.integers(0, len(FAMILIES)))]
    d = d or int(rng.integers(1, 3))
    if fam == "mixed":
        d = 2  # a periodic coordinate next to a coordinate whose posterior abuts a hard wall
    kernel = kernel or ["tpcn", "rwm"][int(rng.integers(0, 2))]
    clustering = bool(rng.integers(0, 2)) if clustering is None else clustering
    resample = resample or ["mult", "syst"][int(rng.integers(0, 2))]
    kinds, a, b, centre, width, lkind = [], [], [], [], [], []
    for j in range(d):
        kinds.append("affine")
        a.append(0.0)
        b.append(1.0)
        centre.append(float(rng.uniform(0.3, 0.7)))
        width.append(float(10 ** rng.uniform(-1.7, -0.9)))
        lkind.append("gauss")
    mix, periodic, reflective = None, None, None
    if fam == "gauss":
        a[0], b[0] = -2.0, 5.0
        centre[0] = a[0] + b[0] * centre[0]
        width[0] = b[0] * width[0]
    elif fam == "narrow":
        # likelihood three orders of magnitude narrower than the prior: many temperature levels, and the importance weights of the
        # prior-phase batches underflow to exactly 0
        for j in range(d):
            a[j], b[j] = -10.0, 20.0
            centre[j] = a[j] + b[j] * float(rng.uniform(0.3, 0.7))
            width[j] = float(rng.uniform(0.02, 0.06))
    elif fam == "wall":
        centre[0] = float(rng.choice([-0.03, 0.0, 0.04, 1.0, 0.97]))
        width[0] = float(10 ** rng.uniform(-1.3, -0.8))
    elif fam == "bimodal":
        c0 = float(rng.uniform(0.2, 0.3))
        centre[0] = c0
        width[0] = float(rng.uniform(0.02, 0.035))
        c1 = list(centre)
        c1[0] = c0 + float(rng.uniform(0.4, 0.5))
        mix = {"centre": c1, "logamp": float(math.log(rng.uniform(0.25, 4.0)))}
    elif fam == "periodic":
        lkind[0] = "vm"
        centre[0] = float(rng.choice([0.0, 0.02, 0.5, 0.98]))
        width[0] = float(rng.uniform(5, 30))  # kappa
        periodic = [0]
    elif fam == "mixed":
        lkind[0] = "vm"
        centre[0] = float(rng.choice([0.0, 0.5, 0.98]))
        width[0] = float(rng.uniform(5, 30))
        periodic = [0]
        centre[1] = float(rng.choice([-0.03, 0.0, 0.04, 1.0]))
        width[1] = float(10 ** rng.uniform(-1.3, -0.8))
    elif fam == "reflective":
        centre[0] = float(rng.choice([-0.02, 0.0, 0.05, 1.0]))
        width[0] = float(10 ** rng.uniform(-1.3, -0.8))
        reflective = [0]
    elif fam == "exp-prior":
        kinds[0] = "exp"
        a[0], b[0] = -1.0, 2.0
        uc = float(rng.uniform(0.3, 0.7))
        centre[0] = math.exp(a[0] + b[0] * uc)
        width[0] = centre[0] * b[0] * float(10 ** rng.uniform(-0.9, -0.5))
    zero_below = None
    if fam == "zero-region":
        # likelihood exactly zero on the prior slab u_0 < uz (20-60% of the prior mass), mode above it
        uz = float(rng.uniform(0.2, 0.6))
        centre[0] = float(rng.uniform(uz + 0.05, 0.9))
        zero_below = uz
    spec = {"d": d, "kinds": kinds, "a": a, "b": b, "centre": centre, "width": width, "mode": mode, "zero_below": zero_below,
            "zero_coord": 0, "shift": 0.0, "mix": mix, "lkind": lkind}
    return {"family": fam, "target": spec, "kernel": kernel, "clustering": clustering, "resample": resample, "N": int(N),
            "periodic": periodic, "reflective": reflective, "seed": int(seed), "vv": vv}


def truth(cell):
    """Quadrature truth: logZ, E[x_j], Var[x_j], median of x_0, circular moments of u_0 (periodic), mode-0 mass (bimodal).
    Independent re-implementation of the target (vectorised), cross-checked against Target.ll_row on a few points."""
    sp = cell["target"]
    d = sp["d"]
    u, w = simpson_nodes()

    def pt(j, uu):
        if sp["kinds"][j] == "affine":
            return sp["a"][j] + sp["b"][j] * uu
        if sp["kinds"][j] == "exp":
            return np.exp(sp["a"][j] + sp["b"][j] * uu)
        raise ValueError("ensemble cells use affine/exp transforms only")

    def term(j, x, c):
        if sp["lkind"][j] == "vm":
            return sp["width"][j] * (np.cos(2 * np.pi * (x - c)) - 1.0)
        return -0.5 * ((x - c) / sp["width"][j]) ** 2

    comps = [(0.0, sp["centre"])] + ([(sp["mix"]["logamp"], sp["mix"]["centre"])] if sp["mix"] else [])
    xs = [pt(j, u) for j in range(d)]
    # cross-check of this re-implementation against the instrumented target at a few points
    t = Target.from_spec(sp)
    for uu in (0.123, 0.5, 0.877) if sp.get("zero_below") is None else (0.97,):
        row = np.full(d, uu)
        xr = t.pt(row)
        want = t.ll_row(xr)
        got = [la + sum(float(term(j, xr[j], c[j])) for j in range(d)) for la, c in comps]
        mx = max(got)
        got = mx + math.log(sum(math.exp(g - mx) for g in got))
        if abs(got - want) > 1e-9 * (1 + abs(want)):
            raise RuntimeError(f"truth(): target re-implementation disagrees with Target.ll_row ({got} vs {want})")
    I0 = np.zeros((len(comps), d))
    I1 = np.zeros((len(comps), d))
    I2 = np.zeros((len(comps), d))
    dens = [[None] * d for _ in comps]
    for m, (la, c) in enumerate(comps):
        for j in range(d):
            l = np.exp(term(j, xs[j], c[j]))
            if sp.get("zero_below") is not None and j == sp.get("zero_coord", 0):
                l = np.where(xs[j] < sp["zero_below"], 0.0, l)
            dens[m][j] = l
            I0[m, j] = np.sum(w * l)
            I1[m, j] = np.sum(w * l * xs[j])
            I2[m, j] = np.sum(w * l * xs[j] ** 2)
    amp = np.array([math.exp(la) for la, _ in comps])
    Zm = amp * np.prod(I0, axis=1)
    Z = Zm.sum()
    mean = np.array([np.sum(Zm * I1[:, j] / I0[:, j]) / Z for j in range(d)])
    ex2 = np.array([np.sum(Zm * I2[:, j] / I0[:, j]) / Z for j in range(d)])
    var = ex2 - mean**2
    marg = sum(Zm[m] / I0[m, 0] * dens[m][0] for m in range(len(comps))) / Z
    # cumulative by trapezoid on the fine grid (median only needs ~1e-5 accuracy in u)
    h = u[1] - u[0]
    cdf = np.concatenate([[0.0], np.cumsum(0.5 * h * (marg[1:] + marg[:-1]))])
    med_u = float(np.interp(0.5, cdf / cdf[-1], u))
    med_x = float(pt(0, np.array([med_u]))[0])
    return {"logz": float(math.log(Z)), "mean": mean.tolist(), "var": var.tolist(), "median0": med_x,
            "sin": float(np.sum(w * marg * np.sin(2 * np.pi * u))), "cos": float(np.sum(w * marg * np.cos(2 * np.pi * u))),
            "mass0": float(Zm[0] / Z)}


def run_replica(cell, seed, N=None, n_total_mult=6, measure_crossing=True):
    """One seeded run. Returns dict of raw estimates or {'crash': sig}."""
    from . import runs

    N = N or cell["N"]
    t = Target.from_spec(cell["target"])
    cfg = dict(sample=cell["kernel"], resample=cell["resample"], clustering=cell["clustering"], n_particles=N,
               periodic=cell["periodic"], reflective=cell["reflective"], volume_variation=cell.get("vv"))
    np.random.seed(seed % (2**31 - 1))
    s = runs.make_sampler(t, cfg)
    core = runs.core_of(s)
    cross = {"n": 0, "x": 0}

    def obs(kw, res):
        cl = core.trainer.clusterer
        if cl is None or getattr(cl, "n_clusters_", 0) < 2:
            cross["n"] += len(res[0])
            return
        a, b = np.asarray(cl.predict(np.asarray(kw["u"]))), np.asarray(cl.predict(np.asarray(res[0])))
        cross["n"] += len(a)
        cross["x"] += int(np.sum(a != b))

    try:
        if cell["clustering"] and measure_crossing:
            with runs.patched_parallel_mcmc(obs), runs.quiet():
                s.run(n_total=n_total_mult * N, progress=False)
        else:
            with runs.quiet():
                s.run(n_total=n_total_mult * N, progress=False)
    except Exception as e:  # noqa
        from .core import exc_sig

        return {"crash": exc_sig(e), "msg": f"{type(e).__name__}: {str(e)[:100]}"}
    out = {"logz": float(s.evidence()[0]), "crossing": cross["x"] / max(1, cross["n"]), "iters": int(s.state.get_history_length()),
           "beta_levels": int(len(set(float(b) for b in s.state.get_history("beta"))))}
    for name, trim in (("untrimmed", False), ("trimmed", True)):
        x, w, _ = s.posterior(trim_importance_weights=trim)
        x, w = np.asarray(x, dtype=float), np.asarray(w, dtype=float)
        m = (w[:, None] * x).sum(0)
        v = (w[:, None] * (x - m) ** 2).sum(0)
        est = {"mean": m.tolist(), "var": v.tolist(), "ess": float(1.0 / np.sum(w * w))}
        est["_x0"], est["_w"] = x[:, 0], w
        out[name] = est
    return out


def finalize_replica(rep, tr, cell):
    """Turn raw estimates into standardised errors against the truth tr."""
    if "crash" in rep:
        return rep
    d = len(tr["mean"])
    sd = np.sqrt(np.array(tr["var"]))
    errs = {"logz": rep["logz"] - tr["logz"]}
    for name in ("untrimmed", "trimmed"):
        e = rep[name]
        for j in range(d):
            errs[f"{name}:mean{j}"] = (e["mean"][j] - tr["mean"][j]) / sd[j]
            errs[f"{name}:var{j}"] = e["var"][j] / tr["var"][j] - 1.0
        x0, w = e.pop("_x0"), e.pop("_w")
        errs[f"{name}:cdf0@median"] = float(np.sum(w[x0 <= tr["median0"]])) - 0.5
        if cell["family"] == "bimodal":
            c0, c1 = cell["target"]["centre"][0], cell["target"]["mix"]["centre"][0]
            errs[f"{name}:mass0"] = float(np.sum(w[np.abs(x0 - c0) < np.abs(x0 - c1)])) - tr["mass0"]
        if cell["family"] == "periodic":
            errs[f"{name}:sin"] = float(np.sum(w * np.sin(2 * np.pi * x0))) - tr["sin"]
            errs[f"{name}:cos"] = float(np.sum(w * np.cos(2 * np.pi * x0))) - tr["cos"]
    return {"errs": errs, "crossing": rep["crossing"], "iters": rep["iters"], "beta_levels": rep["beta_levels"],
            "ess": rep["untrimmed"]["ess"]}


def bias_test(vals, alpha, a_coef, a_cap=float("inf"), s2_extra=0.0):
    """|mean| <= t*(alpha) s/sqrt(R) + min(a*(s^2 + s2_extra), a_cap) ; returns (mean, sd, allowed, flagged).
    The cap keeps a defect that inflates the spread itself from buying its own allowance. s2_extra: variance of another
    estimate that enters this one quadratically (a variance estimate m2 - m1^2 is biased by -Var(m1), whatever its own spread)."""
    v = np.asarray(vals, dtype=float)
    R = len(v)
    m, s = float(v.mean()), float(v.std(ddof=1))
    allowed = float(stats.t.isf(alpha / 2, R - 1)) * s / math.sqrt(R) + min(a_coef * (s * s + float(s2_extra)), a_cap)
    return m, s, allowed, abs(m) > allowed


def quadratic_partner_var(key, reps):
    """For a variance estimand '<estimator>:var<j>' the per-run variance of the standardised mean '<estimator>:mean<j>' (0 otherwise)."""
    if ":var" not in key:
        return 0.0
    partner = key.replace(":var", ":mean")
    vals = [r["errs"][partner] for r in reps if "errs" in r and partner in r["errs"]]
    return float(np.var(vals, ddof=1)) if len(vals) > 1 else 0.0
