#!/usr/bin/env python3
"""tools/mk_mutant.py <pid> <name> <relative file> <old> <new> [--count N]
Creates mutants/<pid>/<name>.patch = unified diff (relative to the repo root) replacing <old> by <new>."""
import sys, os, difflib
pid, name, rel, old, new = sys.argv[1:6]
src = open(os.path.join('/repo', rel)).read()
old = old.encode().decode('unicode_escape'); new = new.encode().decode('unicode_escape')
if src.count(old) != 1:
    sys.exit(f"pattern occurs {src.count(old)} times in {rel}")
dst = src.replace(old, new)
diff = ''.join(difflib.unified_diff(src.splitlines(True), dst.splitlines(True), 'a/' + rel, 'b/' + rel))
d = os.path.join('/verif/mutants', pid); os.makedirs(d, exist_ok=True)
open(os.path.join(d, name + '.patch'), 'w').write(diff)
print(diff)
