#!/usr/bin/env python3
"""Regenerate the table of DESIGN.md section 5.1 (between the CHECK-TABLE markers) from evidence/*.json."""
import glob
import json
import os
import re

ROOT = os.path.dirname(os.path.dirname(os.path.abspath(__file__)))

DESC = {
    "C01": {"posterior": "ensembles: cells (9 target families x kernel x clustering x resampler x metric) x R seeded runs, quadrature truth, two-stage t-test; paired trimmed-vs-untrimmed test at N>=256"},
    "C02": {"evidence": "ensembles at N and 4N (bias, O(1/N) scaling, sd), dynamic-mode cells", "twins": "seed pairs must diverge"},
    "C03": {"kernel_exact": "real kernel vs reference kernel under scripted gamma/normal/uniform draws, d<=8, all boundary kinds", "invariance": "cells x M exact target draws, one kernel step, paired test functions"},
    "C04": {"mis_formula": "long-double reference + 4 metamorphic relations (normalisation, permutation, rescaling, same object after import/load); 1 in 10 cases a 60-150 iteration history"},
    "C05": {"synthetic": "Reweighter.run on generated histories (bisection reference, monotone, bounded)", "real": "after every reweighting step of real runs incl. narrow targets and rewinding the same sampler"},
    "C06": {"syst_exhaustive": "systematic resampling integrated over every offset interval (scripted uniform)", "resampler": "Resampler.run on generated weights: validity, counts within floor/ceil, scaled weights, random_state", "mult_unbiased": "multinomial counts vs n*w (chi-square, two-stage)"},
    "C07": {"coherence": "pairwise covering array x seeds: exact (u,x,logL,blob) check at every step boundary, in history, in posterior()", "coherence_full": "the same over complete random configurations (vlib.cfggen)"},
    "C08": {"roundtrip_resume": "every checkpoint of a run loaded, compared, resumed (other n_total, other n_particles, from final)", "crash": "forked child dies at every IO boundary / byte offset of a save; survivor must load as old or new state"},
    "C09": {"repro": "same random_state twice (ambient stream differs) bit-identical; other seed differs", "repro_full": "the same over complete random configurations", "stream_mixture": "GMM/fit entry points: output follows the ambient stream, never reset it", "stream_sampler": "twin samplers under different ambient streams; op sequences incl. run/save"},
    "C10": {"shift": "paired runs with logL and logL+c (|c| up to 1e3; narrow / vv corners; boundaries)", "shift_full": "the same over complete random configurations"},
    "C11": {"warmup": "hull invariant on every beta=0 evidence, no -inf record, blobs of replaced draws", "warmup_full": "the same over complete random configurations with a zero region", "final_evidence": "ensembles against the analytic evidence"},
    "C12": {"contract": "pairwise covering array x seeds x all 16 posterior() option combinations", "contract_full": "the same over complete random configurations"},
    "C13": {"modes": "scalar / vector / permuting pool / executor / threads / pool=1 / real 2-3-5 worker pools under one seed, exact call counts", "modes_full": "the same (in-process strategies) over complete random configurations; calls across save_state / load_state / sample()"},
    "C14": {"pools": "Trainer+Resampler on generated pools with dying modes: label range, membership, statistics", "runs": "parallel_mcmc observed during real runs: cadence, caps, resume"},
    "C15": {"gmm": "weighted GMM invariants + metamorphic relations", "replication": "integer weights == replicated rows", "hierarchical": "hierarchical clustering: labels, caps, determinism, refit on the same object"},
    "C16": {"fold": "periodic / reflective maps against an exact rational reference"},
    "C17": {"statemanager": "model-based op sequences on StateManager (aliasing, append-only, iterate, save/load)", "sampler": "twin machine on a real sampler"},
    "C18": {"invalid": "one violated constraint at a time on a full valid base: rejected before any likelihood call", "valid": "pairwise covering array of valid options: constructs and runs", "valid_full": "random complete valid configurations (all blob forms, real 2-worker pool, save_every): run to completion with the postconditions"},
    "C19": {"modes": "ModeStatistics (from_particles / from_global / constructor): Cholesky factor and inverse belong to the exposed covariance; equivariance under per-coordinate scaling 1e-6..1e6, translation, permutation", "fit_invariants": "fit_mvstud: finiteness, SPD, affine equivariance, permutation, memory layouts", "recovery": "nu / location / scatter recovery on simulated Student-t data", "fallback": "degenerate inputs fall back, per-mode fits"},
    "C20": {"ess": "ESS bounds, scale/shift/permutation invariance", "trim": "trim keeps total weight semantics, monotone, idempotent", "volume": "volume-variation metric bounds and invariances"},
}


def main():
    rows = []
    for f in sorted(glob.glob(os.path.join(ROOT, "evidence", "C*.json"))):
        e = json.load(open(f))
        pid = e["property_id"]
        h = e["coverage"]["class_histogram"]
        counts = {k[:-6]: v for k, v in h.items() if k.endswith(":cases")}
        parts = []
        for name, desc in DESC[pid].items():
            n = counts.get(name, 0)
            parts.append(f"`{name}` ({n}): {desc}")
        unknown = set(counts) - set(DESC[pid]) - {"regress"}
        if unknown:
            raise SystemExit(f"{pid}: checks without description: {unknown}")
        if counts.get("regress"):
            parts.append(f"`regress` ({counts['regress']}): committed replays of repaired defects")
        rows.append(f"| {pid} | {'; '.join(parts)} | {e['coverage']['evaluations']} / {e['coverage']['distinct_nontrivial']} | {e['wall_s']:.0f} s |")
    table = ("| id | checks (name as in evidence / replays, cases at the quick tier) | evaluations / distinct non-trivial | wall |\n"
             "|----|----|----|----|\n" + "\n".join(rows))
    p = os.path.join(ROOT, "DESIGN.md")
    s = open(p).read()
    new = re.sub(r"(<!-- CHECK-TABLE-BEGIN -->\n).*?(\n<!-- CHECK-TABLE-END -->)", lambda m: m.group(1) + table + m.group(2), s, flags=re.S)
    if new == s and "<!-- CHECK-TABLE-BEGIN -->" not in s:
        raise SystemExit("markers missing")
    open(p, "w").write(new)
    print(table)


if __name__ == "__main__":
    main()
