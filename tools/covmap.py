#!/venv/bin/python
"""tools/covmap.py [ids...] - run the quick checks with line coverage of tempest switched on (evidence and replays redirected to a
scratch directory) and report, per file, the executable lines no check reached. A generator-quality measurement, not a check."""
import glob, json, os, shutil, subprocess, sys, tempfile
ROOT = os.path.dirname(os.path.dirname(os.path.abspath(__file__)))
SRC = os.environ.get("TEMPEST_SRC", "/repo")
ids = [a for a in sys.argv[1:] if not a.startswith("-")] or ["C%02d" % i for i in range(1, 21)]
d = tempfile.mkdtemp(prefix="vcov_", dir="/tmp")
try:
    env = dict(os.environ, VERIF_COV_DIR=d + "/cov", VERIF_EVIDENCE_DIR=d + "/evidence", VERIF_REPLAY_DIR=d + "/replays")
    for pid in ids:
        r = subprocess.run([os.path.join(ROOT, "check"), pid], env=env, capture_output=True, text=True)
        print(pid, "exit", r.returncode, r.stdout.strip().splitlines()[-1][:120] if r.stdout.strip() else "", flush=True)
    seen = set()
    for f in glob.glob(d + "/cov/*.json"):
        seen |= {tuple(x) for x in json.load(open(f))}
    def exec_lines(path):
        src = open(path).read()
        # only lines inside function bodies count: module and class bodies run at import time, before the measurement starts
        top = compile(src, path, "exec")
        out, stack = set(), [(c, False) for c in top.co_consts if hasattr(c, "co_lines")]
        while stack:
            co, inside = stack.pop()
            is_class_body = not inside and "__qualname__" in co.co_names and "__module__" in co.co_names
            if not is_class_body:
                out |= {l for _, _, l in co.co_lines() if l and l != co.co_firstlineno}
            stack += [(c, inside or not is_class_body) for c in co.co_consts if hasattr(c, "co_lines")]
        return out, src.splitlines()
    report, tot, hit = [], 0, 0
    for path in sorted(glob.glob(os.path.join(SRC, "tempest", "**", "*.py"), recursive=True)):
        rel = os.path.relpath(path, os.path.join(SRC, "tempest"))
        lines, text = exec_lines(path)
        got = {l for f, l in seen if f == rel}
        miss = sorted(l for l in lines - got if not text[l - 1].strip().startswith(('"""', "'''", "def ", "class ", "@")))
        tot += len(lines); hit += len(lines & got)
        report.append(f"## {rel}: {len(lines & got)}/{len(lines)} executable lines reached")
        for l in miss:
            report.append(f"    {l:4d}: {text[l - 1].rstrip()[:140]}")
    head = f"# Lines of tempest reached by the quick checks ({', '.join(ids)}): {hit}/{tot} = {100.0 * hit / max(tot, 1):.1f}%\n"
    open(os.path.join(ROOT, "COVERAGE.md"), "w").write(head + "\n".join(report) + "\n")
    print(head)
finally:
    shutil.rmtree(d, ignore_errors=True)
