#!/usr/bin/env python3
"""tools/selftest.py [pid ...] [--tier quick] : kill matrix of mutants/<pid>/*.patch and seeded/*/patch.diff.
Copies /repo's working tree to a scratch dir, applies one patch, runs ./check with TEMPEST_SRC=<scratch>, expects exit 1."""
import sys, os, glob, subprocess, tempfile, shutil, json, time
args = [a for a in sys.argv[1:] if not a.startswith('--')]
tier = 'quick'
only_seeded = '--seeded' in sys.argv
rows = []
def run_one(pid, patch, label):
    d = tempfile.mkdtemp(prefix='vmut_', dir=os.environ.get('VERIF_SCRATCH', '/tmp'))
    try:
        shutil.copytree('/repo/tempest', d + '/tempest', ignore=shutil.ignore_patterns('__pycache__'))
        r = subprocess.run(['patch', '-p1', '-s', '-d', d, '-i', os.path.abspath(patch)], capture_output=True, text=True)
        if r.returncode != 0:
            return (pid, label, 'PATCH-FAILED', r.stdout[-200:] + r.stderr[-200:], 0)
        env = dict(os.environ, TEMPEST_SRC=d, VERIF_EVIDENCE_DIR=d + '/evidence', VERIF_REPLAY_DIR=d + '/replays')
        t0 = time.time()
        r = subprocess.run(['/verif/check', pid, '--tier', tier], capture_output=True, text=True, env=env)
        lines = [l for l in r.stdout.splitlines() if l.startswith('VIOLATION') or l.startswith('  ')]
        return (pid, label, {0: 'SURVIVED', 1: 'KILLED', 2: 'HARNESS-ERROR'}.get(r.returncode, str(r.returncode)), ' | '.join(lines)[:300] or r.stderr[-300:], time.time() - t0)
    finally:
        shutil.rmtree(d, ignore_errors=True)
pids = args or sorted(os.path.basename(p) for p in glob.glob('/verif/mutants/C*'))
for pid in pids:
    for patch in sorted(glob.glob(f'/verif/mutants/{pid}/*.patch')):
        rows.append(run_one(pid, patch, os.path.basename(patch)))
        print(*rows[-1][:3], '%.0fs' % rows[-1][4], rows[-1][3][:160], flush=True)
    for meta in sorted(glob.glob('/verif/seeded/*/meta.json')):
        m = json.load(open(meta))
        if pid in m.get('properties', [m.get('property')]):
            rows.append(run_one(pid, os.path.join(os.path.dirname(meta), 'patch.diff'), 'seeded/' + os.path.basename(os.path.dirname(meta))))
            print(*rows[-1][:3], '%.0fs' % rows[-1][4], rows[-1][3][:160], flush=True)
