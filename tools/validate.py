#!/usr/bin/env python3
"""Validate MANIFEST.json and evidence/*.json against the given schemas (run with python3-vt)."""
import json, sys, glob, jsonschema
ok = True
ms = json.load(open('/root/.vp/MANIFEST.schema.json')); es = json.load(open('/root/.vp/EVIDENCE.schema.json'))
try:
    jsonschema.validate(json.load(open('/verif/MANIFEST.json')), ms); print("MANIFEST ok")
except Exception as e:
    ok = False; print("MANIFEST INVALID", e)
for p in sorted(glob.glob('/verif/evidence/*.json')):
    try:
        jsonschema.validate(json.load(open(p)), es); print(p, "ok")
    except Exception as e:
        ok = False; print(p, "INVALID", str(e)[:300])
sys.exit(0 if ok else 1)
