#!/usr/bin/env python3
"""tools/try_seed.py <seeded-name> <check-id>[,<check-id>...] [seed ...]  - run quick checks against a stored seeded change (scratch copy)."""
import os, shutil, subprocess, sys, tempfile, time
name, checks = sys.argv[1], sys.argv[2].split(',')
seeds = sys.argv[3:] or ['1']
patch = os.path.join('/verif/seeded', name, 'patch.diff')
for c in checks:
    for sd in seeds:
        d = tempfile.mkdtemp(prefix='vmut_', dir='/tmp')
        try:
            shutil.copytree('/repo/tempest', d + '/tempest', ignore=shutil.ignore_patterns('__pycache__'))
            subprocess.run(['patch', '-p1', '-s', '-d', d, '-i', patch], check=True)
            env = dict(os.environ, TEMPEST_SRC=d, VERIF_EVIDENCE_DIR=d + '/evidence', VERIF_REPLAY_DIR=d + '/replays', VERIF_SEED=sd)
            t0 = time.time()
            r = subprocess.run(['/verif/check', c, '--tier', 'quick'], capture_output=True, text=True, env=env)
            lines = [l for l in r.stdout.splitlines() if l.startswith('VIOLATION') or l.startswith('  ')]
            print(name, c, 'seed', sd, {0: 'MISSED', 1: 'CAUGHT', 2: 'HARNESS-ERROR'}.get(r.returncode), '%.0fs' % (time.time() - t0), ' | '.join(lines)[:300], flush=True)
            if r.returncode == 2:
                print((r.stdout + r.stderr)[-800:])
        finally:
            shutil.rmtree(d, ignore_errors=True)
