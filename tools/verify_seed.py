#!/usr/bin/env python3
"""tools/verify_seed.py <src_dir_with_OUT> <property> <name> [--checks C07,C12]
Confirms an independently written change in a fresh scratch worktree (demo passes without / fails with the change; the
repository's suite still passes with it), stores it under /verif/seeded/<name>/ and runs the registered quick checks against it."""
import sys, os, subprocess, shutil, json, tempfile, time
src, prop, name = sys.argv[1:4]
checks = [prop]
for a in sys.argv[4:]:
    if a.startswith('--checks'):
        checks = a.split('=')[1].split(',')
out = os.path.join(src, 'OUT')
wt = tempfile.mkdtemp(prefix='vseed_', dir='/tmp')
os.rmdir(wt)
ran = []
def sh(cmd, **k):
    r = subprocess.run(cmd, shell=True, capture_output=True, text=True, **k)
    ran.append({'cmd': cmd, 'exit': r.returncode, 'tail': (r.stdout + r.stderr)[-300:]})
    return r
try:
    sh(f'git -C /repo worktree add --detach -q {wt} HEAD')
    env = dict(os.environ, PYTHONPATH=wt)
    shutil.copy(os.path.join(out, 'demo.py'), os.path.join(wt, 'demo_seed.py'))
    r0 = sh(f'cd {wt} && /venv/bin/python demo_seed.py', env=env)
    ra = sh(f'git -C {wt} apply {out}/patch.diff')
    r1 = sh(f'cd {wt} && /venv/bin/python demo_seed.py', env=env)
    rt = sh(f'cd {wt} && /venv/bin/python -m pytest -q -p no:cacheprovider --timeout=900 --deselect tests/test_state.py::SamplerStateTestCase::test_resume --deselect tests/test_sample_method.py::SampleMethodTestCase::test_sample_with_save_every --deselect tests/test_sampler_features.py::SamplerFeaturesTestCase::test_custom_output_dir 2>&1 | tail -2', env=env)
    ok = r0.returncode == 0 and ra.returncode == 0 and r1.returncode != 0 and '230 passed' in rt.stdout
    print('demo without change exit', r0.returncode, '| apply', ra.returncode, '| demo with change exit', r1.returncode, '| suite:', rt.stdout.strip().splitlines()[-1] if rt.stdout.strip() else rt.stderr[-200:])
    if not ok:
        print('NOT CONFIRMED'); sys.exit(1)
finally:
    subprocess.run(f'git -C /repo worktree remove --force {wt}', shell=True, capture_output=True)
dst = os.path.join('/verif/seeded', name)
os.makedirs(dst, exist_ok=True)
for f in ('patch.diff', 'demo.py', 'notes.md'):
    if os.path.exists(os.path.join(out, f)):
        shutil.copy(os.path.join(out, f), os.path.join(dst, f))
results = {}
for c in checks:
    d = tempfile.mkdtemp(prefix='vmut_', dir='/tmp')
    try:
        shutil.copytree('/repo/tempest', d + '/tempest', ignore=shutil.ignore_patterns('__pycache__'))
        subprocess.run(['patch', '-p1', '-s', '-d', d, '-i', os.path.join(dst, 'patch.diff')], check=True)
        env = dict(os.environ, TEMPEST_SRC=d, VERIF_EVIDENCE_DIR=d + '/evidence', VERIF_REPLAY_DIR=d + '/replays')
        t0 = time.time()
        r = subprocess.run(['/verif/check', c, '--tier', 'quick'], capture_output=True, text=True, env=env)
        lines = [l for l in r.stdout.splitlines() if l.startswith('VIOLATION') or l.startswith('  ')]
        results[c] = {'exit': r.returncode, 'verdict': {0: 'MISSED', 1: 'CAUGHT', 2: 'HARNESS-ERROR'}.get(r.returncode), 'wall_s': round(time.time() - t0, 1), 'message': ' | '.join(lines)[:400]}
        print(c, results[c]['verdict'], results[c]['message'][:200])
    finally:
        shutil.rmtree(d, ignore_errors=True)
notes = open(os.path.join(dst, 'notes.md')).read() if os.path.exists(os.path.join(dst, 'notes.md')) else ''
meta = {'property': prop, 'properties': checks, 'name': name, 'written_by': 'independent sub-agent given only the property text and a scratch worktree',
        'needs_to_manifest': notes[:1500], 'confirmed': {'demo_without_change_exit': 0, 'demo_with_change_exit': r1.returncode, 'suite_with_change': '230 passed (3 always-failing tests deselected)'},
        'commands_run': ran, 'quick_check_results': results}
json.dump(meta, open(os.path.join(dst, 'meta.json'), 'w'), indent=1)
